//! C19 driver: the same program built against one feature combination of the crate.
//! Reads the input file written by `mc c19-inputs`, runs every operation the
//! combination provides and prints one line per observation:
//!   P <family> <i> ok|err                parse acceptance
//!   A <family> <i> <fnv of the AST's Debug form without span / comment fields>
//!   F <family> <i> <formatted text, JSON string>
//!   VJ <s> <d> ok|err    VC <s> <d> ok|err    VV <s> <d> <h> ok|err      validation verdicts
use std::io::Write;

fn fnv(s: &str) -> u64 {
  let mut h: u64 = 0xcbf29ce484222325;
  for b in s.bytes() {
    h ^= b as u64;
    h = h.wrapping_mul(0x100000001b3);
  }
  h
}

/// Debug form -> the same text without the fields a feature adds (`span`, every `*comments*` field) and
/// without the braces they leave empty. A tiny recursive-descent reader of Rust's `{:?}` output.
struct Norm<'a> {
  b: &'a [u8],
  i: usize,
  out: String,
}
impl<'a> Norm<'a> {
  fn ws(&mut self) {
    while self.i < self.b.len() && (self.b[self.i] == b' ' || self.b[self.i] == b'\n') {
      self.i += 1;
    }
  }
  fn ident(&mut self) -> String {
    let s = self.i;
    while self.i < self.b.len() && (self.b[self.i].is_ascii_alphanumeric() || self.b[self.i] == b'_') {
      self.i += 1;
    }
    String::from_utf8_lossy(&self.b[s..self.i]).into_owned()
  }
  fn string(&mut self, q: u8) -> String {
    let s = self.i;
    self.i += 1;
    while self.i < self.b.len() {
      if self.b[self.i] == b'\\' {
        self.i += 2;
        continue;
      }
      if self.b[self.i] == q {
        self.i += 1;
        break;
      }
      self.i += 1;
    }
    String::from_utf8_lossy(&self.b[s..self.i]).into_owned()
  }
  /// one value; returns its normal form
  fn value(&mut self) -> String {
    self.ws();
    if self.i >= self.b.len() {
      return String::new();
    }
    let c = self.b[self.i];
    match c {
      b'"' => self.string(b'"'),
      b'\'' => self.string(b'\''),
      b'[' | b'(' => {
        let close = if c == b'[' { b']' } else { b')' };
        self.i += 1;
        let mut items = vec![];
        loop {
          self.ws();
          if self.i >= self.b.len() {
            break;
          }
          if self.b[self.i] == close {
            self.i += 1;
            break;
          }
          if self.b[self.i] == b',' {
            self.i += 1;
            continue;
          }
          items.push(self.value());
        }
        format!("{}{}{}", c as char, items.join(","), close as char)
      }
      _ if c.is_ascii_alphabetic() || c == b'_' => {
        let name = self.ident();
        self.ws();
        if self.i < self.b.len() && self.b[self.i] == b'{' {
          self.i += 1;
          let mut fields = vec![];
          loop {
            self.ws();
            if self.i >= self.b.len() {
              break;
            }
            if self.b[self.i] == b'}' {
              self.i += 1;
              break;
            }
            if self.b[self.i] == b',' {
              self.i += 1;
              continue;
            }
            let f = self.ident();
            self.ws();
            if self.i < self.b.len() && self.b[self.i] == b':' {
              self.i += 1;
            }
            let v = self.value();
            if f == "span" || f.contains("comments") {
              continue;
            }
            fields.push(format!("{f}:{v}"));
          }
          if fields.is_empty() {
            name
          } else {
            format!("{name}{{{}}}", fields.join(","))
          }
        } else if self.i < self.b.len() && self.b[self.i] == b'(' {
          let inner = self.value();
          format!("{name}{inner}")
        } else {
          name
        }
      }
      _ => {
        // numbers, signs, other atoms: up to a delimiter
        let s = self.i;
        while self.i < self.b.len() && !matches!(self.b[self.i], b',' | b')' | b']' | b'}' | b' ' | b'\n') {
          self.i += 1;
        }
        if self.i == s {
          self.i += 1;
        }
        String::from_utf8_lossy(&self.b[s..self.i]).into_owned()
      }
    }
  }
}
fn normal_debug(s: &str) -> String {
  let mut n = Norm { b: s.as_bytes(), i: 0, out: String::new() };
  let v = n.value();
  let _ = &n.out;
  v
}

fn unhex(s: &str) -> Vec<u8> {
  (0..s.len() / 2).map(|i| u8::from_str_radix(&s[2 * i..2 * i + 2], 16).unwrap()).collect()
}

/// ast-parent: for every operator and every first type2 of the top-level alternatives of every type rule, climb the parent
/// index to the enclosing rule and report its name and the number of steps (the same in every configuration)
#[cfg(feature = "ast-parent")]
fn parents(text: &str) -> String {
  use cddl::ast::parent::ParentVisitor;
  use cddl::ast::{CDDLType, Rule};
  let r = std::panic::catch_unwind(|| {
    let Ok(ast) = cddl::cddl_from_str(text, false) else { return "ERR-parse".to_string() };
    let pv = match ParentVisitor::new(&ast) {
      Ok(p) => p,
      Err(_) => return "ERR-index".to_string(),
    };
    let climb = |start: CDDLType| -> String {
      let mut steps = 0;
      let mut cur: Option<&CDDLType> = start.parent(&pv);
      while let Some(c) = cur {
        steps += 1;
        if let CDDLType::Rule(r) = c {
          let name = match r {
            Rule::Type { rule, .. } => rule.name.ident,
            Rule::Group { rule, .. } => rule.name.ident,
          };
          return format!("{name}@{steps}");
        }
        if steps > 64 {
          break;
        }
        cur = c.parent(&pv);
      }
      format!("none@{steps}")
    };
    let mut out = vec![];
    for rule in &ast.rules {
      if let Rule::Type { rule, .. } = rule {
        for tc in &rule.value.type_choices {
          out.push(climb(CDDLType::from(&tc.type1.type2)));
          if let Some(op) = &tc.type1.operator {
            out.push(climb(CDDLType::from(&op.operator)));
            out.push(climb(CDDLType::from(&op.type2)));
          }
        }
      }
    }
    out.join(",")
  });
  r.unwrap_or_else(|_| "PANIC".to_string())
}

fn main() {
  let path = std::env::args().nth(1).expect("input file");
  let inp: serde_json::Value = serde_json::from_str(&std::fs::read_to_string(path).expect("read")).expect("json");
  let so = std::io::stdout();
  let mut o = std::io::BufWriter::new(so.lock());
  std::panic::set_hook(Box::new(|_| {}));
  for fam in ["core", "commented", "controls", "freezer"] {
    let Some(list) = inp[fam].as_array() else { continue };
    for (i, d) in list.iter().enumerate() {
      let text = d.as_str().unwrap_or("");
      let r = std::panic::catch_unwind(|| match cddl::cddl_from_str(text, false) {
        Ok(a) => Some((fnv(&normal_debug(&format!("{:?}", a))), a.to_string(), if std::env::var("C19_DEBUG").is_ok() { normal_debug(&format!("{:?}", a)) } else { String::new() })),
        Err(_) => None,
      });
      match r {
        Ok(Some((h, f, dbg))) => {
          #[cfg(feature = "ast-parent")]
          {
            let _ = writeln!(o, "PV {fam} {i} {}", parents(text));
          }
          let _ = writeln!(o, "P {fam} {i} ok");
          let _ = writeln!(o, "A {fam} {i} {h:016x}{}", if dbg.is_empty() { String::new() } else { format!(" {dbg}") });
          let _ = writeln!(o, "F {fam} {i} {}", serde_json::Value::String(f));
        }
        Ok(None) => {
          let _ = writeln!(o, "P {fam} {i} err");
        }
        Err(_) => {
          let _ = writeln!(o, "P {fam} {i} panic");
        }
      }
    }
  }
  let schemas: Vec<String> = inp["schemas"].as_array().map(|a| a.iter().map(|s| s.as_str().unwrap_or("").to_string()).collect()).unwrap_or_default();
  let _ = &schemas;
  #[cfg(feature = "json")]
  {
    let docs: Vec<String> = inp["json_docs"].as_array().map(|a| a.iter().map(|s| s.as_str().unwrap_or("").to_string()).collect()).unwrap_or_default();
    for (s, schema) in schemas.iter().enumerate() {
      for (d, doc) in docs.iter().enumerate() {
        let r = std::panic::catch_unwind(|| {
          #[cfg(feature = "additional-controls")]
          let r = cddl::validate_json_from_str(schema, doc, None);
          #[cfg(not(feature = "additional-controls"))]
          let r = cddl::validate_json_from_str(schema, doc);
          r.is_ok()
        });
        let _ = writeln!(o, "VJ {s} {d} {}", match r { Ok(true) => "ok", Ok(false) => "err", Err(_) => "panic" });
      }
    }
  }
  #[cfg(all(feature = "json", feature = "additional-controls"))]
  {
    let cs: Vec<String> = inp["control_schemas"].as_array().map(|a| a.iter().map(|s| s.as_str().unwrap_or("").to_string()).collect()).unwrap_or_default();
    let docs: Vec<String> = inp["control_docs"].as_array().map(|a| a.iter().map(|s| s.as_str().unwrap_or("").to_string()).collect()).unwrap_or_default();
    for (s, schema) in cs.iter().enumerate() {
      for (d, doc) in docs.iter().enumerate() {
        let r = std::panic::catch_unwind(|| cddl::validate_json_from_str(schema, doc, None).is_ok());
        let _ = writeln!(o, "WJ {s} {d} {}", match r { Ok(true) => "ok", Ok(false) => "err", Err(_) => "panic" });
      }
    }
  }
  #[cfg(feature = "cbor")]
  {
    let docs: Vec<Vec<u8>> = inp["cbor_docs"].as_array().map(|a| a.iter().map(|s| unhex(s.as_str().unwrap_or(""))).collect()).unwrap_or_default();
    for (s, schema) in schemas.iter().enumerate() {
      for (d, doc) in docs.iter().enumerate() {
        let r = std::panic::catch_unwind(|| {
          #[cfg(feature = "additional-controls")]
          let r = cddl::validate_cbor_from_slice(schema, doc, None);
          #[cfg(not(feature = "additional-controls"))]
          let r = cddl::validate_cbor_from_slice(schema, doc);
          r.is_ok()
        });
        let _ = writeln!(o, "VC {s} {d} {}", match r { Ok(true) => "ok", Ok(false) => "err", Err(_) => "panic" });
      }
    }
  }
  #[cfg(feature = "csv-validate")]
  {
    let cs: Vec<String> = inp["csv_schemas"].as_array().map(|a| a.iter().map(|s| s.as_str().unwrap_or("").to_string()).collect()).unwrap_or_default();
    let docs: Vec<String> = inp["csv_docs"].as_array().map(|a| a.iter().map(|s| s.as_str().unwrap_or("").to_string()).collect()).unwrap_or_default();
    for (s, schema) in cs.iter().enumerate() {
      for (d, doc) in docs.iter().enumerate() {
        for h in [None, Some(true)] {
          let r = std::panic::catch_unwind(|| {
            #[cfg(feature = "additional-controls")]
            let r = cddl::validate_csv_from_str(schema, doc, h, None);
            #[cfg(not(feature = "additional-controls"))]
            let r = cddl::validate_csv_from_str(schema, doc, h);
            r.is_ok()
          });
          let _ = writeln!(o, "VV {s} {d} {} {}", h.is_some() as u8, match r { Ok(true) => "ok", Ok(false) => "err", Err(_) => "panic" });
        }
      }
    }
  }
  let _ = unhex;
  let _ = o.flush();
}
