#!/usr/bin/env python3
"""Regenerates /verif/MANIFEST.json from the table below (run by hand after adding a check)."""
import json
CHECKS = {
 "C01": dict(level="model_checking", ref="DESIGN.md §5 C01", thorough=True,
   text="explicit-state enumeration of every (schema, JSON document) state up to schema weight 4 over the core alphabet x the small JSON universe (thorough: same weight, larger document universe), plus a map family (every map of 2-3 members / two alternatives over a 14-member alphabet of literal-keyed, cut, table and group-reference members x all objects over keys a-d); every state is judged by the three-valued reference matcher R (RFC 8610 semantics, don't-care where the text is open) and replayed on the real JSONValidator; model traces validated against the implementation = every state",
   note="trusts R (mc/src/refmodel.rs) as the reading of RFC 8610 sections 2-3; nothing is claimed outside the alphabet/weight bound; three recorded defects are attributed by semantic patterns, two of them additionally on committed state lists under known/ (known_findings.jsonl)",
   tech="bounded-exhaustive explicit-state enumeration + reference model conformance"),
 "C11": dict(level="model_checking", ref="DESIGN.md §5 C11", thorough=False,
   text="every byte string of length <= 3 (plus structured longer families: every encoding with <= 2 deviations of a CBOR value universe, all prefixes) is fed to decode_cbor and compared with an independent RFC 8949 reference decoder (well-formedness, value, consumed length); exhaustive within the bound",
   note="trusts the harness' reference codec (mc/src/cborref.rs); simple(23)->null is a recorded finding",
   tech="exhaustive byte-string enumeration against a reference decoder"),
}
CHECKS["C10"] = dict(level="model_checking", ref="DESIGN.md §5 C10, §9", thorough=True,
   text="explicit-state relational exploration: every (map schema, map document) state of a dedicated family (1-3 members over a 20-member alphabet incl. bounded tables; two alternatives with up to two members each; x 130 map documents incl. duplicate and equivalent keys) and as transitions ALL n! permutations of every document map's entries (CBOR value order; JSON text order) and all permutations of key-disjoint schema members (both validators); the successor must show the state's verdict",
   note="no reference model is trusted (purely relational); duplicate-key accounting is judged where every member is single-keyed; two recorded CBOR defects are attributed only on the committed state lists under known/ (structural pattern AND listed state)",
   tech="exhaustive permutation enumeration, differential oracle")
CHECKS["C14"] = dict(level="model_checking", ref="DESIGN.md §5 C14, §9", thorough=True,
   text="every (schema, JSON document) state up to weight 3 (4 thorough) x JSON universe plus a struct family (all maps of 1-3 members over a 13-member alphabet with nested values x 343 objects) on both validators; call histories over a 26-call alphabet that touches every caching dependency: each ordered pair (thorough: triple) of calls is run in its own fresh process and every call must report as it does alone in a fresh process; from each state the histories repeat / call-after-all-other-calls (reverse sweep) / string entry point are executed and the ordered (location, reason) lists compared; every JSON error location is resolved in the document; a fixed table checks that malformed schema, malformed document and non-conforming document come back as different error kinds",
   note="sequential histories are enumerated exhaustively up to length 2 (3 thorough); interleavings of concurrent calls cannot be enumerated by a controlled scheduler here (no synchronisation points of the crate's own; loom/shuttle do not intercept std inside the regex/pest dependencies): every pair of calls is additionally run on two free-running threads, which is sampling and is reported separately in the evidence",
   tech="exhaustive state x history enumeration on the real validators")
CHECKS["C06"] = dict(level="model_checking", ref="DESIGN.md §5 C06, §9", thorough=True,
   text="explicit-state exploration of the parse/format graph: every accepted text of four exhaustively enumerated families (all type terms up to weight 4 (5 thorough) over a syntax alphabet covering every construct and literal kind; rule headers with generics, sockets, /=, //=, group rules; all ordered pairs/triples of representative rules; comma-free, multi-line and tab/CRLF respellings) is a state, its formatting and re-formatting are the transitions; on every state the real parser and printer are run and the formatted text must be accepted, parse to the same AST up to positions/comments/commas, and re-format to itself",
   note="purely relational on the real parser and printer (no model trusted); commented documents are C16's space",
   tech="bounded-exhaustive enumeration of documents, round-trip (metamorphic) oracle on the real parser and printer")
CHECKS["C12"] = dict(level="model_checking", ref="DESIGN.md §5 C12, §9", thorough=True,
   text="explicit-state enumeration against a reference model: (A) every document of 1-4 (thorough 5) rules over 26 rule variants (names a, b, $a, $$a x generics x '=', '/=', '//=' x type/group bodies), reference = first plain '=' of an already defined or incremented name, parser must reject exactly then and report that rule's name, line and offset; (B) every one of 34 syntactic reference positions x 52 fillers (defined, every prelude name, own / foreign generic parameter, sockets, undefined look-alikes) singly and in pairs through CDDL::from_slice, reference = reject iff a reference position holds an undefined name",
   note="the two reference models are a dozen lines each (mc/src/c12.rs first_duplicate / expect_undefined); documents outside the crate's grammar are skipped and counted",
   tech="bounded-exhaustive enumeration of rule sequences and reference placements + reference model conformance")
CHECKS["C20"] = dict(level="model_checking", ref="DESIGN.md §5 C20, §9", thorough=True,
   text="every accepted document of the syntax families (all type terms up to weight 3 (4 thorough), rule headers, multi-rule documents, and a forced-repetition family that places the same sub-expression twice) is a state; every (child, parent) edge of its AST, produced by an independent walk of the public AST along the crate's documented containment table, is a transition on which the real ParentVisitor is queried: the answer must be the expected parent node itself (address identity; occurrence indicators compared field by field incl. span; literal values, which have no identity, must get the parent of an equal value), the index must build and the root must have no parent",
   note="purely structural oracle (the containment relation is read off the public AST types); literal Value nodes are by-value and cannot be told apart when equal",
   tech="bounded-exhaustive enumeration of documents x all parent/child edges, independent AST walk as reference")
CHECKS["C15"] = dict(level="model_checking", ref="DESIGN.md §5 C15, §9", thorough=True,
   text="every text of the syntax families (all type terms up to weight 3 (4 thorough), rule headers, multi-rule documents, tab/CRLF and multi-byte-comment respellings) and every single-character deletion / probe insertion / truncation of the small documents, plus duplicate-rule documents, is a state; accepted texts are checked on every span reachable in the public AST (range, character boundaries, line, nesting in the parent, sibling order without overlap, identifier text, rule start), rejected texts on the reported Position (inside the input, character boundaries, non-inverted, line/column recomputed from the index)",
   note="invariant checking on the real parser; the only reference computations are line/column counting and span nesting",
   tech="bounded-exhaustive enumeration of documents and of their single-edit mutants, state invariants on the real parser output")
CHECKS["C07"] = dict(level="model_checking", ref="DESIGN.md §5 C07, §9", thorough=True,
   text="explicit-state enumeration of (syntactic position, literal spelling) states against independent reference decoders: every number spelling of length <= 5 (6 thorough) over a 12-character alphabet, boundary families around 2^32 / 2^63 / 2^64 and the f64 range in decimal, hex, binary and hex-float, in 20 positions (type, keys, range bounds, occurrence bounds, tag / simple-value numbers, control and generic arguments); every sequence of <= 3 (4) text escape building blocks (24 blocks incl. surrogate pairs of planes 1, 2, 16, lone surrogates, \\u{...} variants) in 6 positions; every sequence of <= 3 (4) hex / base64 / base64url building blocks incl. whitespace, comments and padding variants; the value stored in the AST is read at the hole and must equal the reference value, invalid or unrepresentable spellings must not be accepted as a literal",
   note="trusts the reference decoders in mc/src/c07.rs (u128 integers, std's decimal-to-double on a re-assembled canonical spelling, exact hex floats, RFC 9682 escapes, RFC 4648); open questions (escapes in unprefixed byte strings, radix mantissas, non-zero base64 trailing bits, mixed alphabets) are don't-care",
   tech="bounded-exhaustive enumeration of literal spellings x positions + reference decoder conformance")
CHECKS["C09"] = dict(level="model_checking", ref="DESIGN.md §5 C09, §9", thorough=True,
   text="explicit-state relational exploration: a state is (identity instance, validator, document); identity instances are A / B vs A, B, B / A and A .and B, A .within B vs A, B for every ordered pair of 21 (31 thorough) operand types, T .ne v vs T and T .eq v, inclusive vs exclusive ranges, each in 7 single-position contexts (top level, array element, map value, next to an optional member, generic argument, optional trailing element), ? * + vs 0*1 0* 1* for 10 entry kinds in array and map contexts, and 17 prelude names vs their Appendix D definitions; every instance is run on both real validators over the JSON universe (+ CBOR-only values) and the law of the identity is evaluated on the verdicts",
   note="no reference model (the laws relate runs of the same validator); float16/32/64 = #7.25/26/27 are left out because C02's encoding-independence leaves open what a width-specific type may reject; one recorded JSON defect is attributed on a committed state list",
   tech="bounded-exhaustive enumeration of identity instances x documents, algebraic (metamorphic) laws on the real validators")
CHECKS["C13"] = dict(level="model_checking", ref="DESIGN.md §5 C13, §9", thorough=True,
   text="every CSV text of <= 4 (5 thorough) symbols over {a 1 0 - + . e , quote space LF CRLF} plus a structured family (36 field spellings incl. numeric look-alikes and 64-bit boundaries, quoted fields, 1-3 columns x 1-3 rows, LF/CRLF) x header flag is a state; an own RFC 4180 reader and the property's field classes map it to a JSON document (don't-care where the property does not pin the spelling); for each of 16 distinguishing schemas validate_csv_from_str must give the verdict the real JSON validator gives on the mapped document",
   note="trusts the harness' RFC 4180 reader and field classifier (mc/src/c13.rs); texts outside RFC 4180 and unpinned spellings (+3, 007, '1.', '.5') are don't-care",
   tech="bounded-exhaustive enumeration of CSV texts + reference mapping conformance")
CHECKS["C04"] = dict(level="model_checking", ref="DESIGN.md §5 C04, §9", thorough=True,
   text="explicit-state differential exploration: a state is (schema, JSON-model value); schemas are every type term of weight <= 3 (4 thorough) over the C01 core alphabet, the C01 map family and a shared-feature family (generics, sockets, unwrap, group-to-choice, named / float range bounds, 14 control operators, recursion, nested occurrences, 25 prelude and literal types in 6 positions); values are the JSON universe plus 64-bit boundary integers, integral / huge floats, non-ASCII, date and URI texts; the two transitions of a state are the real JSON validation of its text and the real CBOR validation of its preferred encoding, which must agree (int/float re-readings of the value are tolerated as C01 states)",
   note="no model: purely differential between the two real validators; .bits and other CBOR-only operators are outside the shared set",
   tech="bounded-exhaustive enumeration of (schema, value) states, differential oracle between the two validators")
NA = {}
def main():
    props=[json.loads(l)["id"] for l in open("/verif/properties.jsonl")]
    checks=[]
    for pid,c in CHECKS.items():
        d={"property_id":pid,"quick_cmd":f"./check {pid} quick","evidence_file":f"/verif/evidence/{pid}.json",
           "replay_cmd_template":"./check replay {path}","engine":"mc",
           "level_claimed":{"category":c["level"],"text":c["text"],"design_ref":c["ref"]},
           "level_note":c["note"],"technique":c["tech"]}
        if c.get("thorough"): d["thorough_cmd"]=f"./check {pid} thorough"
        checks.append(d)
    na=[{"property_id":p,"reason":NA.get(p,"no check is registered for this property in this round: the bounded-exhaustive design exists (DESIGN.md section 5) but the check is not built; nothing is claimed (DESIGN.md section 9)")} for p in props if p not in CHECKS]
    m={"version":1,
       "setup_cmd":"cd /verif/mc && CARGO_NET_OFFLINE=true cargo build --release --offline",
       "hooks":{"guard":"cddl_verif","enable":"no hooks are needed: the harness links /repo as a cargo path dependency (rebuilt from the working tree by ./check on every run) and observes public API only","baseline_off_cmd":"cd /repo && cargo nextest run --workspace --no-fail-fast --offline","source_commits":[],"add_only":True},
       "engines":[{"name":"mc","path":"/verif/mc","serves_properties":list(CHECKS),"kind_free_text":"own explicit-state bounded-exhaustive explorer in Rust, linked against /repo by path; reference models in the same crate"}],
       "checks":checks,"not_applicable":na,
       "notes":"Every check: ./check <ID> <tier>; exit 0 quiet (KNOWN-FINDING lines allowed), 1 with VIOLATION lines, 2 = ENGINE-ERROR (never a verdict). Known findings: /verif/known_findings.jsonl."}
    json.dump(m,open("/verif/MANIFEST.json","w"),indent=1); print(len(checks),"checks",len(na),"n/a")
main()
