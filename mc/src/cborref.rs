//! Independent RFC 8949 reference codec (Appendix C style well-formedness decoder),
//! data-model value type, and an encoder that enumerates all encodings of an item
//! with a bounded number of deviations from the preferred encoding.
use cddl::validator::cbor_value::Value as IV;

#[derive(Clone, Debug, PartialEq)]
pub enum RV {
  Uint(u64),
  /// the integer -1 - n
  Nint(u64),
  Bytes(Vec<u8>),
  Text(String),
  Array(Vec<RV>),
  Map(Vec<(RV, RV)>),
  Tag(u64, Box<RV>),
  Simple(u8),
  Float(f64),
}

#[derive(Clone, Debug, PartialEq)]
pub enum RErr {
  Truncated,
  Reserved,       // additional information 28..30
  BadBreak,       // break outside indefinite item / AI 31 on mt 0,1,6
  BadChunk,       // wrong-type or indefinite chunk in indefinite string
  BadUtf8,
  BadSimple,      // 0xf8 n with n < 32
}

pub fn half_to_f64(h: u16) -> f64 {
  let s = (h >> 15) & 1;
  let e = ((h >> 10) & 0x1f) as i32;
  let m = (h & 0x3ff) as f64;
  let v = if e == 0 {
    m * 2f64.powi(-24)
  } else if e != 31 {
    (m + 1024.0) * 2f64.powi(e - 25)
  } else if m == 0.0 {
    f64::INFINITY
  } else {
    f64::NAN
  };
  if s == 1 {
    -v
  } else {
    v
  }
}

struct Dec<'a> {
  b: &'a [u8],
  p: usize,
}
impl<'a> Dec<'a> {
  fn u8(&mut self) -> Result<u8, RErr> {
    let x = *self.b.get(self.p).ok_or(RErr::Truncated)?;
    self.p += 1;
    Ok(x)
  }
  fn take(&mut self, n: u64) -> Result<&'a [u8], RErr> {
    let rem = (self.b.len() - self.p) as u64;
    if n > rem {
      return Err(RErr::Truncated);
    }
    let s = &self.b[self.p..self.p + n as usize];
    self.p += n as usize;
    Ok(s)
  }
  fn arg(&mut self, ai: u8) -> Result<u64, RErr> {
    Ok(match ai {
      0..=23 => ai as u64,
      24 => self.u8()? as u64,
      25 => {
        let s = self.take(2)?;
        u16::from_be_bytes([s[0], s[1]]) as u64
      }
      26 => {
        let s = self.take(4)?;
        u32::from_be_bytes([s[0], s[1], s[2], s[3]]) as u64
      }
      27 => {
        let s = self.take(8)?;
        u64::from_be_bytes([s[0], s[1], s[2], s[3], s[4], s[5], s[6], s[7]])
      }
      _ => return Err(RErr::Reserved),
    })
  }
  /// Returns None for a break code when `allow_break`.
  fn item(&mut self, allow_break: bool, depth: usize) -> Result<Option<RV>, RErr> {
    if depth > 4000 {
      // reference model only used on bounded inputs; guard own stack
      return Err(RErr::Truncated);
    }
    let ib = self.u8()?;
    let mt = ib >> 5;
    let ai = ib & 0x1f;
    if (28..=30).contains(&ai) {
      return Err(RErr::Reserved);
    }
    if ai == 31 {
      return match mt {
        2 | 3 => {
          let mut bytes = vec![];
          loop {
            let cb = self.u8()?;
            if cb == 0xff {
              break;
            }
            let cmt = cb >> 5;
            let cai = cb & 0x1f;
            if cmt != mt {
              return Err(RErr::BadChunk);
            }
            if (28..=30).contains(&cai) {
              return Err(RErr::Reserved);
            }
            if cai == 31 {
              return Err(RErr::BadChunk);
            }
            let n = self.arg(cai)?;
            let s = self.take(n)?;
            if mt == 3 && std::str::from_utf8(s).is_err() {
              // each chunk of a text string must itself be valid UTF-8 (RFC 8949 3.2.3)
              return Err(RErr::BadUtf8);
            }
            bytes.extend_from_slice(s);
          }
          if mt == 2 {
            Ok(Some(RV::Bytes(bytes)))
          } else {
            Ok(Some(RV::Text(String::from_utf8(bytes).map_err(|_| RErr::BadUtf8)?)))
          }
        }
        4 => {
          let mut v = vec![];
          while let Some(x) = self.item(true, depth + 1)? {
            v.push(x);
          }
          Ok(Some(RV::Array(v)))
        }
        5 => {
          let mut v = vec![];
          while let Some(k) = self.item(true, depth + 1)? {
            let val = self.item(false, depth + 1)?.unwrap();
            v.push((k, val));
          }
          Ok(Some(RV::Map(v)))
        }
        7 => {
          if allow_break {
            Ok(None)
          } else {
            Err(RErr::BadBreak)
          }
        }
        _ => Err(RErr::BadBreak),
      };
    }
    if mt == 7 {
      return Ok(Some(match ai {
        0..=23 => RV::Simple(ai),
        24 => {
          let n = self.u8()?;
          if n < 32 {
            return Err(RErr::BadSimple);
          }
          RV::Simple(n)
        }
        25 => {
          let s = self.take(2)?;
          RV::Float(half_to_f64(u16::from_be_bytes([s[0], s[1]])))
        }
        26 => {
          let s = self.take(4)?;
          RV::Float(f32::from_be_bytes([s[0], s[1], s[2], s[3]]) as f64)
        }
        _ => {
          let s = self.take(8)?;
          RV::Float(f64::from_be_bytes([s[0], s[1], s[2], s[3], s[4], s[5], s[6], s[7]]))
        }
      }));
    }
    let n = self.arg(ai)?;
    Ok(Some(match mt {
      0 => RV::Uint(n),
      1 => RV::Nint(n),
      2 => RV::Bytes(self.take(n)?.to_vec()),
      3 => RV::Text(String::from_utf8(self.take(n)?.to_vec()).map_err(|_| RErr::BadUtf8)?),
      4 => {
        let mut v = vec![];
        for _ in 0..n {
          v.push(self.item(false, depth + 1)?.unwrap());
        }
        RV::Array(v)
      }
      5 => {
        let mut v = vec![];
        for _ in 0..n {
          let k = self.item(false, depth + 1)?.unwrap();
          let x = self.item(false, depth + 1)?.unwrap();
          v.push((k, x));
        }
        RV::Map(v)
      }
      _ => RV::Tag(n, Box::new(self.item(false, depth + 1)?.unwrap())),
    }))
  }
}

/// Decode the first data item; returns the value and the number of bytes consumed.
pub fn ref_decode(b: &[u8]) -> Result<(RV, usize), RErr> {
  let mut d = Dec { b, p: 0 };
  let v = d.item(false, 0)?.unwrap();
  Ok((v, d.p))
}

/// Map the crate's value into the reference data model. `Null` is ambiguous in the
/// crate (null and undefined share it), so it is returned as Simple(22) and the
/// caller decides how to treat an expected Simple(23).
pub fn impl_to_rv(v: &IV) -> RV {
  match v {
    IV::Integer(i) => {
      let n: i128 = (*i).into();
      if n >= 0 {
        RV::Uint(n as u64)
      } else {
        RV::Nint((-1 - n) as u64)
      }
    }
    IV::Bytes(b) => RV::Bytes(b.clone()),
    IV::Float(f) => RV::Float(*f),
    IV::Text(s) => RV::Text(s.clone()),
    IV::Bool(false) => RV::Simple(20),
    IV::Bool(true) => RV::Simple(21),
    IV::Null => RV::Simple(22),
    IV::Tag(t, x) => RV::Tag(*t, Box::new(impl_to_rv(x))),
    IV::Array(a) => RV::Array(a.iter().map(impl_to_rv).collect()),
    IV::Map(m) => RV::Map(m.iter().map(|(k, v)| (impl_to_rv(k), impl_to_rv(v))).collect()),
    IV::Simple(n) => RV::Simple(*n),
  }
}

/// Build the crate's value from a reference value (used to feed CBORValidator::new
/// directly). Simple(23) (undefined) has no representation; maps to Null like the
/// crate's decoder does.
pub fn rv_to_impl(v: &RV) -> IV {
  use ciborium::value::Integer;
  match v {
    RV::Uint(n) => IV::Integer(Integer::from(*n)),
    RV::Nint(n) => IV::Integer(Integer::try_from(-1i128 - *n as i128).unwrap()),
    RV::Bytes(b) => IV::Bytes(b.clone()),
    RV::Text(s) => IV::Text(s.clone()),
    RV::Array(a) => IV::Array(a.iter().map(rv_to_impl).collect()),
    RV::Map(m) => IV::Map(m.iter().map(|(k, v)| (rv_to_impl(k), rv_to_impl(v))).collect()),
    RV::Tag(t, x) => IV::Tag(*t, Box::new(rv_to_impl(x))),
    RV::Simple(20) => IV::Bool(false),
    RV::Simple(21) => IV::Bool(true),
    RV::Simple(22) | RV::Simple(23) => IV::Null,
    RV::Simple(n) => IV::Simple(*n),
    RV::Float(f) => IV::Float(*f),
  }
}

/// Equality of data-model values; floats by bits except that all NaNs are equal.
/// `undef_is_null`: treat expected Simple(23) as equal to observed Simple(22).
pub fn rv_eq(exp: &RV, got: &RV, undef_as_null: &mut bool) -> bool {
  match (exp, got) {
    (RV::Float(a), RV::Float(b)) => (a.is_nan() && b.is_nan()) || a.to_bits() == b.to_bits(),
    (RV::Simple(23), RV::Simple(22)) => {
      *undef_as_null = true;
      true
    }
    (RV::Array(a), RV::Array(b)) => {
      a.len() == b.len() && a.iter().zip(b).all(|(x, y)| rv_eq(x, y, undef_as_null))
    }
    (RV::Map(a), RV::Map(b)) => {
      a.len() == b.len()
        && a.iter().zip(b).all(|((k1, v1), (k2, v2))| rv_eq(k1, k2, undef_as_null) && rv_eq(v1, v2, undef_as_null))
    }
    (RV::Tag(t1, a), RV::Tag(t2, b)) => t1 == t2 && rv_eq(a, b, undef_as_null),
    (RV::Float(_), _) | (_, RV::Float(_)) => false,
    (a, b) => a == b,
  }
}

// ---------------------------------------------------------------- encoder

pub fn head(mt: u8, n: u64, width: u8) -> Vec<u8> {
  // width: 0 = in the initial byte, 1,2,4,8 = following bytes
  let mut v = vec![];
  match width {
    0 => v.push((mt << 5) | n as u8),
    1 => {
      v.push((mt << 5) | 24);
      v.push(n as u8)
    }
    2 => {
      v.push((mt << 5) | 25);
      v.extend_from_slice(&(n as u16).to_be_bytes())
    }
    4 => {
      v.push((mt << 5) | 26);
      v.extend_from_slice(&(n as u32).to_be_bytes())
    }
    _ => {
      v.push((mt << 5) | 27);
      v.extend_from_slice(&n.to_be_bytes())
    }
  }
  v
}
pub fn min_width(n: u64) -> u8 {
  if n < 24 {
    0
  } else if n <= 0xff {
    1
  } else if n <= 0xffff {
    2
  } else if n <= 0xffff_ffff {
    4
  } else {
    8
  }
}
/// all (head bytes, deviations) for argument n
fn heads(mt: u8, n: u64, budget: usize) -> Vec<(Vec<u8>, usize)> {
  let mw = min_width(n);
  let mut out = vec![(head(mt, n, mw), 0)];
  if budget >= 1 {
    for w in [1u8, 2, 4, 8] {
      if w > mw {
        out.push((head(mt, n, w), 1));
      }
    }
  }
  out
}

fn f16_bits(f: f64) -> Option<u16> {
  // exact search is fine: only used on a tiny alphabet
  if f.is_nan() {
    return Some(0x7e00);
  }
  for h in 0..=0xffffu32 {
    let h = h as u16;
    let v = half_to_f64(h);
    if !v.is_nan() && v.to_bits() == f.to_bits() {
      return Some(h);
    }
  }
  None
}

pub fn float_encs(f: f64, budget: usize) -> Vec<(Vec<u8>, usize)> {
  let mut forms: Vec<Vec<u8>> = vec![];
  if let Some(h) = f16_bits(f) {
    let mut v = vec![0xf9];
    v.extend_from_slice(&h.to_be_bytes());
    forms.push(v);
  }
  let f32v = f as f32;
  if (f32v as f64).to_bits() == f.to_bits() || f.is_nan() {
    let mut v = vec![0xfa];
    v.extend_from_slice(&f32v.to_be_bytes());
    forms.push(v);
  }
  let mut v = vec![0xfb];
  v.extend_from_slice(&f.to_be_bytes());
  forms.push(v);
  forms.into_iter().enumerate().filter(|(i, _)| *i == 0 || budget >= 1).map(|(i, v)| (v, if i == 0 { 0 } else { 1 })).collect()
}

fn product(parts: Vec<Vec<(Vec<u8>, usize)>>, budget: usize) -> Vec<(Vec<u8>, usize)> {
  let mut acc: Vec<(Vec<u8>, usize)> = vec![(vec![], 0)];
  for p in parts {
    let mut next = vec![];
    for (a, da) in &acc {
      for (b, db) in &p {
        if da + db <= budget {
          let mut v = a.clone();
          v.extend_from_slice(b);
          next.push((v, da + db));
        }
      }
    }
    acc = next;
  }
  acc
}

fn string_encs(mt: u8, bytes: &[u8], is_text: bool, budget: usize) -> Vec<(Vec<u8>, usize)> {
  let mut out = vec![];
  for (h, d) in heads(mt, bytes.len() as u64, budget) {
    let mut v = h;
    v.extend_from_slice(bytes);
    out.push((v, d));
  }
  if budget >= 1 {
    // indefinite with every split into <= 3 chunks (on char boundaries for text)
    let n = bytes.len();
    let ok = |i: usize| !is_text || std::str::from_utf8(&bytes[..i]).is_ok() && std::str::from_utf8(&bytes[i..]).is_ok();
    let mut splits: Vec<Vec<usize>> = vec![vec![0, n]];
    if n == 0 {
      splits.push(vec![]);
    }
    for i in 0..=n {
      if ok(i) {
        splits.push(vec![0, i, n]);
        for j in i..=n {
          if ok(j) && (j == i || std::str::from_utf8(&bytes[i..j]).is_ok() || !is_text) {
            splits.push(vec![0, i, j, n]);
          }
        }
      }
    }
    splits.sort();
    splits.dedup();
    for s in splits {
      let mut v = vec![(mt << 5) | 31];
      for w in s.windows(2) {
        let c = &bytes[w[0]..w[1]];
        v.extend_from_slice(&head(mt, c.len() as u64, min_width(c.len() as u64)));
        v.extend_from_slice(c);
      }
      v.push(0xff);
      out.push((v, 1));
    }
  }
  out
}

/// All encodings of `v` with at most `budget` deviations from the preferred encoding.
pub fn encodings(v: &RV, budget: usize) -> Vec<(Vec<u8>, usize)> {
  match v {
    RV::Uint(n) => heads(0, *n, budget),
    RV::Nint(n) => heads(1, *n, budget),
    RV::Bytes(b) => string_encs(2, b, false, budget),
    RV::Text(s) => string_encs(3, s.as_bytes(), true, budget),
    RV::Simple(n) => {
      if *n < 24 {
        vec![(vec![0xe0 | n], 0)]
      } else {
        vec![(vec![0xf8, *n], 0)]
      }
    }
    RV::Float(f) => float_encs(*f, budget),
    RV::Tag(t, x) => {
      let mut out = vec![];
      for (h, d) in heads(6, *t, budget) {
        for (b, db) in encodings(x, budget - d) {
          let mut v = h.clone();
          v.extend_from_slice(&b);
          out.push((v, d + db));
        }
      }
      out
    }
    RV::Array(a) => {
      let mut out = vec![];
      let mut hs = heads(4, a.len() as u64, budget);
      if budget >= 1 {
        hs.push((vec![0x9f], 1));
      }
      for (h, d) in hs {
        let indef = h == [0x9f];
        let parts: Vec<_> = a.iter().map(|x| encodings(x, budget - d)).collect();
        for (b, db) in product(parts, budget - d) {
          let mut v = h.clone();
          v.extend_from_slice(&b);
          if indef {
            v.push(0xff);
          }
          out.push((v, d + db));
        }
      }
      out
    }
    RV::Map(m) => {
      let mut out = vec![];
      let mut hs = heads(5, m.len() as u64, budget);
      if budget >= 1 {
        hs.push((vec![0xbf], 1));
      }
      for (h, d) in hs {
        let indef = h == [0xbf];
        let mut parts = vec![];
        for (k, x) in m {
          parts.push(encodings(k, budget - d));
          parts.push(encodings(x, budget - d));
        }
        for (b, db) in product(parts, budget - d) {
          let mut v = h.clone();
          v.extend_from_slice(&b);
          if indef {
            v.push(0xff);
          }
          out.push((v, d + db));
        }
      }
      out
    }
  }
}

pub fn preferred(v: &RV) -> Vec<u8> {
  encodings(v, 0).into_iter().next().unwrap().0
}

pub fn rv_to_diag(v: &RV) -> String {
  match v {
    RV::Uint(n) => n.to_string(),
    RV::Nint(n) => (-1i128 - *n as i128).to_string(),
    RV::Bytes(b) => format!("h'{}'", crate::core::hex(b)),
    RV::Text(s) => format!("{:?}", s),
    RV::Array(a) => format!("[{}]", a.iter().map(rv_to_diag).collect::<Vec<_>>().join(", ")),
    RV::Map(m) => format!("{{{}}}", m.iter().map(|(k, v)| format!("{}: {}", rv_to_diag(k), rv_to_diag(v))).collect::<Vec<_>>().join(", ")),
    RV::Tag(t, x) => format!("{}({})", t, rv_to_diag(x)),
    RV::Simple(20) => "false".into(),
    RV::Simple(21) => "true".into(),
    RV::Simple(22) => "null".into(),
    RV::Simple(23) => "undefined".into(),
    RV::Simple(n) => format!("simple({n})"),
    RV::Float(f) => {
      if f.fract() == 0.0 && f.is_finite() {
        format!("{:.1}", f)
      } else {
        format!("{}", f)
      }
    }
  }
}
