//! C04 — JSON and CBOR validators give the same verdict on the same data.
//! Differential, no model: every (schema, JSON-model value) state is validated as JSON text
//! and as (preferred) CBOR encoding of the same value; the verdicts must be equal.
use crate::cborref::RV;
use crate::core::*;
use crate::docs::*;
use crate::space::*;
use crate::terms::*;
use crate::verdicts::*;
use serde_json::json;
use std::collections::BTreeMap;

pub const F_MAPS: &str = "C04-map-matching-strategies-differ";

/// schemas of the shared feature set beyond the C01 core alphabet, as texts
pub fn shared_feature_schemas() -> Vec<String> {
  let mut out = vec![];
  let bodies = [
    // generics
    "r = m<int>\nm<t> = [* t]",
    "r = m<int, tstr>\nm<t, u> = {a: t, ? b: u}",
    "r = [g<int>, g<tstr>]\ng<t> = (t, t)",
    "r = {kv<\"a\", int>, ? kv<\"b\", tstr>}\nkv<k, v> = (k => v)",
    // two instantiations of one generic group over types without a numeric reading (the int/float
    // tolerance below cannot absorb a difference)
    "r = [g<tstr>, g<bool>]\ng<t> = (t, t)",
    "r = [g<bool>, g<tstr>]\ng<t> = (t, t)",
    "r = [* g<tstr>, g<bool>]\ng<t> = (t, t)",
    "r = [g<tstr>, ? g<bool>, g<nil>]\ng<t> = (t, ? t)",
    "r = [m<tstr>, m<bool>]\nm<t> = [t, t]",
    "r = [g<tstr>, [g<bool>]]\ng<t> = (t, t)",
    "r = w<w<int>>\nw<t> = [t]",
    "r = o<int>\no<t> = t / nil",
    // sockets / plugs
    "r = [* $s]\n$s /= int\n$s /= tstr",
    "r = $s\n$s /= 1\n$s /= \"a\"",
    "r = {a: int, $$g}\n$$g //= (b: tstr)\n$$g //= (c: int)",
    "r = {$$g}\n$$g //= (? b: tstr)",
    "r = $s",
    // unwrap
    "r = [int, ~a]\na = [tstr, tstr]",
    "r = {c: int, ~m}\nm = {a: int, ? b: tstr}",
    "r = [~a, ~a]\na = [int]",
    // group to choice
    "r = &(a: 1, b: 2, c: \"x\")",
    "r = [* &g]\ng = (a: 1, b: \"a\")",
    "r = {a: &(x: 1 // y: 2)}",
    // ranges with named bounds, float ranges
    "r = lo..hi\nlo = 0\nhi = 2",
    "r = 0...hi\nhi = 2",
    "r = 0.5..1.5",
    "r = [* -1..1]",
    // controls
    "r = tstr .regexp \"a|b\"",
    "r = tstr .regexp \"[a-c]+\"",
    "r = [* tstr .regexp \"^a\"]",
    "r = \"a\" .cat \"b\"",
    "r = \"a\" .cat c\nc = \"bc\"",
    "r = 1 .plus 2",
    "r = {a: 1 .plus 1.5}",
    "r = int .default 1",
    "r = {? a: int .default 1}",
    "r = tstr .size 1",
    "r = tstr .size (1..2)",
    "r = tstr .size (1..3)",
    "r = tstr .size (2...6)",
    "r = tstr .size 2",
    "r = [* tstr .size (1..3)]",
    "r = {a: tstr .size (1...6)}",
    "r = uint .size 1",
    "r = int .lt 1",
    "r = number .ge 1.5",
    "r = int .ne 1",
    "r = tstr .eq \"a\"",
    "r = (int / tstr) .ne 1",
    "r = int .and uint",
    "r = number .within int",
    "r = {a: int} .and {a: uint}",
    "r = [int] .eq [1]",
    "r = {a: int} .eq {a: 1}",
    "r = [* int] .ne [1, 2]",
    // RFC 9165 / 9741 / freezer controls on text (both validators implement them)
    "r = tstr .feature \"f\"",
    "r = {a: int / (tstr .feature \"f\")}",
    "r = [* (int .feature \"f\")]",
    "r = \"a\\n  b\" .det \"c\"",
    "r = tstr .abnf \"a = %x61\"",
    "r = tstr .abnf \"a = 1*%x61-62\"",
    "r = tstr .b64u 'ab'",
    "r = tstr .b64c 'ab'",
    "r = tstr .b64u-sloppy 'ab'",
    "r = tstr .hex 'ab'",
    "r = tstr .hexlc 'ab'",
    "r = tstr .hexuc 'ab'",
    "r = tstr .b32 'ab'",
    "r = tstr .h32 'ab'",
    "r = tstr .b45 'ab'",
    "r = tstr .base10 int",
    "r = tstr .base10 (1..20)",
    "r = tstr .printf ([\"%d\", 12])",
    "r = tstr .json int",
    "r = tstr .json {a: int}",
    "r = tstr .join ([\"a\", \"b\"])",
    "r = tstr .pcre \"a+\"",
    "r = tstr .iregexp \"a+\"",
    "r = [* tstr .pcre \"[ab]\"]",
    // recursion / aliases
    "r = int / [* r]",
    "r = {? a: r}",
    "r = a\na = b\nb = tstr / nil",
    // occurrences in nested groups
    "r = [* (int, tstr)]",
    "r = [? (int // tstr, tstr), int]",
    "r = [1*2 (int, ? tstr)]",
    "r = {* (a: int // b: tstr)}",
    "r = {? (a: int, b: tstr)}",
    "r = [+ int, * tstr]",
    "r = [2*3 int]",
    "r = [*2 any]",
  ];
  for b in bodies {
    out.push(format!("{b}\n"));
  }
  // every shared scalar-ish type in 5 positions
  for t in ["int", "uint", "nint", "float", "number", "tstr", "text", "bool", "true", "false", "nil", "null", "any", "integer", "unsigned", "1", "-1", "1.5", "\"a\"", "0..2", "bstr", "bytes", "uri", "tdate", "time"] {
    for ctx in ["r = {X}", "r = [{X}]", "r = [* {X}]", "r = {a: {X}}", "r = {* tstr => {X}}", "r = {X} / nil"] {
      out.push(format!("{}\n", ctx.replace("{X}", t)));
    }
  }
  out
}

pub fn extra_docs() -> Vec<RV> {
  vec![
    t("2020-01-01T00:00:00Z"),
    t("ab"),
    t("aa"),
    t("YWI"),
    t("YWI="),
    t("6162"),
    t("6162 "),
    t("MFRA===="),
    t("C5H0===="),
    t("FGW"),
    t("12"),
    t("1"),
    t("{\"a\":1}"),
    t("a\nbc"),
    t("http://x.y/z"),
    t("bc"),
    t("abc"),
    t("c"),
    t("é"),
    t("€€"),
    RV::Array(vec![t("é")]),
    RV::Map(vec![(t("a"), t("€€"))]),
    i(3),
    i(256),
    i(65536),
    RV::Uint(i64::MAX as u64),
    RV::Uint(i64::MAX as u64 + 1),
    RV::Uint(u64::MAX),
    RV::Nint(i64::MAX as u64),
    RV::Float(1.0),
    RV::Float(2.5),
    RV::Float(-0.0),
    RV::Float(1e300),
    RV::Float(3.0),
    RV::Array(vec![t("a"), t("b")]),
    RV::Array(vec![t("a"), t("b"), RV::Simple(21), RV::Simple(20)]),
    RV::Array(vec![RV::Simple(21), RV::Simple(20), t("a"), t("b")]),
    RV::Array(vec![t("a"), t("b"), t("c"), t("d")]),
    RV::Array(vec![RV::Simple(21), RV::Simple(21), RV::Simple(20), RV::Simple(20)]),
    RV::Array(vec![t("a"), t("b"), RV::Simple(22), RV::Simple(22)]),
    RV::Array(vec![t("a"), RV::Simple(21), RV::Simple(22)]),
    RV::Array(vec![RV::Array(vec![t("a"), t("b")]), RV::Array(vec![RV::Simple(21), RV::Simple(20)])]),
    RV::Array(vec![t("a"), t("b"), RV::Array(vec![RV::Simple(21), RV::Simple(20)])]),
    RV::Array(vec![i(1), t("a"), t("b")]),
    RV::Array(vec![i(1), i(2), t("a"), t("b")]),
    RV::Array(vec![RV::Array(vec![RV::Array(vec![i(1)])])]),
    RV::Array(vec![RV::Array(vec![i(1)])]),
    RV::Map(vec![(t("a"), i(1)), (t("b"), t("x")), (t("c"), i(2))]),
    RV::Map(vec![(t("a"), RV::Map(vec![(t("a"), RV::Map(vec![]))]))]),
    RV::Map(vec![(t("a"), RV::Float(2.5))]),
    RV::Map(vec![(t("a"), i(2))]),
    RV::Map(vec![(t("x"), i(1))]),
  ]
}

fn maps_of(schema: &str) -> bool {
  schema.contains('{')
}

/// recorded finding: the two validators use different strategies to assign map keys to
/// members (JSON: greedy in member order, CBOR: claims with bipartite re-assignment); the
/// individual defects are recorded under C01 / C10. Attributed only for schemas with a map
/// and only on the committed state list.
fn classify(schema: &str, doc: &RV) -> Option<String> {
  if maps_of(schema) {
    let k = statelist::key(&[schema, &to_json_text(doc)]);
    if statelist::listed(F_MAPS, k) {
      return Some(F_MAPS.into());
    }
  }
  None
}

#[derive(Default)]
struct Acc {
  v: VAcc,
  states: u64,
  nontrivial: u64,
  obs: BTreeMap<String, u64>,
  samples: Vec<serde_json::Value>,
  unparsed: u64,
  int_float_tolerated: u64,
}

fn check_schema(text: &str, docs: &[RV], sdocs: &[serde_json::Value], a: &mut Acc, idx: usize) {
  let (Ok(j), Ok(c)) = (json_many(text, sdocs), cbor_many(text, docs)) else {
    a.unparsed += 1;
    return;
  };
  let (mut ok, mut rej) = (0, 0);
  for k in 0..docs.len() {
    a.states += 1;
    match &j[k] {
      Obs::Ok => ok += 1,
      Obs::Invalid => rej += 1,
      _ => {}
    }
    *a.obs.entry(format!("json={} cbor={}", j[k].short().split('(').next().unwrap_or(""), c[k].short().split('(').next().unwrap_or(""))).or_insert(0) += 1;
    let panic = matches!(j[k], Obs::Panic(_)) || matches!(c[k], Obs::Panic(_));
    let mut differ = j[k].accepted() != c[k].accepted() || (j[k].accepted().is_none() && j[k] != c[k]);
    if differ && !panic && numeric_sites(&docs[k]) > 0 {
      // "A JSON integer and a JSON float that denote the same number are not distinguished" (C01):
      // the JSON verdict may be the CBOR verdict of any int/float reading of the value
      let n = numeric_sites(&docs[k]).min(4);
      let readings: Vec<RV> = (1..(1u32 << n)).map(|m| reading(&docs[k], m, &mut 0)).collect();
      if let Ok(cr) = cbor_many(text, &readings) {
        if cr.iter().any(|o| o.accepted() == j[k].accepted()) {
          differ = false;
          a.int_float_tolerated += 1;
        }
      }
    }
    if panic || differ {
      // a non-validation error on both sides with the same text is agreement; on one side only is not
      a.v.push(Viol {
        kind: if panic { "panic".into() } else { "json-vs-cbor".into() },
        case: json!({"schema": text, "json": to_json_text(&docs[k]), "cbor": hex(&crate::cborref::preferred(&docs[k]))}),
        observed: format!("JSON {} but CBOR {}", j[k].short(), c[k].short()),
        expected: "the same verdict".into(),
        finding: if panic { None } else { classify(text, &docs[k]) },
      });
    }
  }
  if ok > 0 && rej > 0 {
    a.nontrivial += docs.len() as u64;
  }
  if a.samples.len() < 2 && idx % 1201 == 9 {
    a.samples.push(json!({"schema": text, "json": to_json_text(&docs[idx % docs.len()]), "json_verdict": j[idx % docs.len()].short(), "cbor_verdict": c[idx % docs.len()].short()}));
  }
}

pub fn run(tier: Tier) -> i32 {
  quiet_panics();
  let mut run = Run::new("C04", tier, "model_checking");
  let mut docs = json_universe(tier);
  docs.extend(extra_docs());
  let sdocs: Vec<serde_json::Value> = docs.iter().map(rv_to_serde).collect();
  let lib = helper_rules();
  let cfg = core_cfg();
  let w = std::env::var("VERIF_W").ok().and_then(|s| s.parse().ok()).unwrap_or(tier.pick(3usize, 4usize));
  let en = Enum::new(&cfg, w);
  let mut schemas: Vec<String> = vec![];
  for k in 1..=w {
    for ty in en.types(k) {
      schemas.push(assemble(ty.clone(), &lib).render());
    }
  }
  let n_core = schemas.len();
  for ty in crate::c01::map_family(Tier::Quick) {
    schemas.push(assemble(ty, &lib).render());
  }
  let n_map = schemas.len() - n_core;
  let shared = shared_feature_schemas();
  let n_shared = shared.len();
  schemas.extend(shared);
  let accs = par_sweep(schemas.len(), 8, Acc::default, |i, a: &mut Acc| check_schema(&schemas[i], &docs, &sdocs, a, i));
  let mut obs: BTreeMap<String, u64> = BTreeMap::new();
  let mut unparsed = 0;
  for a in accs {
    run.absorb(a.v);
    run.states += a.states;
    run.nontrivial += a.nontrivial;
    unparsed += a.unparsed;
    run.add("states_tolerated_by_the_int_float_rule", a.int_float_tolerated);
    for (k, v) in a.obs {
      *obs.entry(k).or_insert(0) += v;
    }
    for s in a.samples {
      run.sample(s);
    }
  }
  run.transitions = run.states * 2;
  run.traces = run.states * 2;
  run.evaluations = run.states * 2;
  run.set("schemas", json!({"core_weight_enumerated": n_core, "map_family": n_map, "shared_features": n_shared, "not_accepted_by_the_parser": unparsed}));
  run.set("documents", json!(docs.len()));
  run.set("distinct_observations", json!(obs));
  run.rule = format!(
    "state = (schema, JSON-model value). Schemas: every type term of weight <= {w} over the C01 core alphabet, the C01 map family (every map of 2-3 members / two alternatives \
     over 14 members), and a shared-feature family (generics with 1-2 parameters incl. nested and group generics, sockets and plugs, unwrap, group-to-choice, named and float range \
     bounds, .regexp .cat .plus .default .size .lt .ge .ne .eq .and .within .bits, recursion, alias chains, occurrences on nested groups, and 25 prelude / literal types in 6 positions). \
     Values: the JSON universe plus boundary integers (2^63-1, 2^63, 2^64-1, -2^63), integral and huge floats, date / URI texts and deeper nestings. transitions = the two validations \
     of each state: validate the JSON text with the JSON validator and the preferred CBOR encoding of the same value with the CBOR validator. Oracle: equal verdicts (a panic on either \
     side is a violation); where they differ and the value holds integral numbers, the JSON verdict may equal the CBOR verdict of any int/float re-reading of the value (C01: a JSON integer and float denoting the same number are not distinguished). non-trivial = states of schemas that accept some and reject some value."
  );
  run.assumptions = vec!["values are encoded in preferred CBOR serialization; other encodings are C02's question".into()];
  run.finish()
}

pub fn replay(case: &serde_json::Value) -> Option<Viol> {
  let s = case["schema"].as_str()?;
  let j = json_str(s, case["json"].as_str()?);
  let c = cbor_slice(s, &unhex(case["cbor"].as_str()?));
  (j.accepted() != c.accepted()).then(|| Viol {
    kind: "json-vs-cbor".into(),
    case: case.clone(),
    observed: format!("JSON {} but CBOR {}", j.short(), c.short()),
    expected: "the same verdict".into(),
    finding: None,
  })
}
