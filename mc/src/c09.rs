//! C09 — type operators, occurrences and prelude names obey their defining identities.
//! Purely relational: every identity relates the verdicts of several runs of the SAME real
//! validator on the same document; operands, contexts and documents are enumerated.
use crate::cborref::RV;
use crate::core::*;
use crate::docs::*;
use crate::verdicts::*;
use serde_json::json;
use std::collections::BTreeMap;

fn operands(tier: Tier) -> Vec<&'static str> {
  let mut v = vec![
    "int", "uint", "nint", "tstr", "bool", "nil", "float", "number", "any", "1", "-1", "\"a\"", "1.5", "0..2", "[int]", "[* int]", "{a: int}", "(int / tstr)", "tc",
    "tstr .size 1", "true",
    // an array target under .ne next to the literal array it excludes (state left behind by a failed arm)
    "[int] .ne [1]", "[1]",
  ];
  if tier == Tier::Thorough {
    v.extend(["[int, tstr]", "{* tstr => int}", "int .ge 1", "-1..1", "0.5..1.5", "[* tc]", "ti", "false", "null", "2"]);
  }
  v
}

/// contexts: a type expression X is embedded in a schema; `{X}` is the hole
/// (only contexts in which X occupies exactly one position of the document, so that the
/// type-level identities carry over to the whole schema)
const CONTEXTS: [&str; 7] = ["r = {X}", "r = [{X}]", "r = [tstr, {X}]", "r = {a: {X}}", "r = {? b: tstr, a: {X}}", "r = m<{X}>\nm<t> = [t]", "r = [int, ? {X}]"];
const LIB: &str = "\ntc = tstr / nil\nti = int\n";

/// an operand usable on either side of a control operator (a type2): parenthesised when it
/// is a range or carries a control itself
fn t2(x: &str) -> String {
  if x.contains("..") || x.contains(" .") {
    format!("({x})")
  } else {
    x.to_string()
  }
}

fn schema(ctx: &str, x: &str) -> String {
  format!("{}{}", ctx.replace("{X}", x), LIB)
}

pub struct Docs {
  pub rv: Vec<RV>,
  pub js: Vec<serde_json::Value>,
  pub is_json: Vec<bool>,
}

fn documents(tier: Tier) -> Docs {
  let mut rv = json_universe(Tier::Quick);
  // one-element arrays in every context position
  let (one, two) = (RV::Array(vec![RV::Uint(1)]), RV::Array(vec![RV::Uint(2)]));
  for d in [one.clone(), two.clone()] {
    for w in [
      RV::Array(vec![d.clone()]),
      RV::Array(vec![RV::Text("a".into()), d.clone()]),
      RV::Map(vec![(RV::Text("a".into()), d.clone())]),
      RV::Map(vec![(RV::Text("b".into()), RV::Text("x".into())), (RV::Text("a".into()), d.clone())]),
      RV::Array(vec![RV::Uint(1), d.clone()]),
    ] {
      if !rv.contains(&w) {
        rv.push(w);
      }
    }
  }
  for w in [
    RV::Array(vec![RV::Uint(1), RV::Uint(2)]),
    RV::Array(vec![RV::Uint(1), RV::Uint(2), RV::Uint(3)]),
    RV::Array(vec![RV::Text("a".into()), RV::Uint(1), RV::Uint(2)]),
    RV::Array(vec![RV::Uint(1), RV::Text("a".into()), RV::Uint(2), RV::Text("b".into())]),
    RV::Array(vec![RV::Uint(1), RV::Text("a".into()), RV::Uint(2)]),
    RV::Map(vec![(RV::Text("x".into()), RV::Array(vec![RV::Uint(1), RV::Uint(2)]))]),
  ] {
    if !rv.contains(&w) {
      rv.push(w);
    }
  }
  let njson = rv.len();
  // CBOR-only documents (for the CBOR validator only)
  let extra = cbor_extra(Tier::Quick);
  let keep = tier.pick(60, extra.len());
  rv.extend(extra.into_iter().take(keep));
  let js = rv.iter().take(njson).map(rv_to_serde).collect();
  let is_json = (0..rv.len()).map(|i| i < njson).collect();
  Docs { rv, js, is_json }
}

/// verdict vectors of one schema: (json over the JSON documents, cbor over all documents)
fn run_schema(text: &str, d: &Docs) -> Option<(Vec<Obs>, Vec<Obs>)> {
  let j = json_many(text, &d.js).ok()?;
  let c = cbor_many(text, &d.rv).ok()?;
  Some((j, c))
}

fn acc(o: &Obs) -> Option<bool> {
  o.accepted()
}

#[derive(Default)]
struct Acc {
  v: VAcc,
  relations: u64,
  states: u64,
  nontrivial: u64,
  skipped: BTreeMap<String, u64>,
  samples: Vec<serde_json::Value>,
}

struct Rel {
  /// name of the identity
  name: &'static str,
  /// schemas taking part (first one is the "subject")
  schemas: Vec<String>,
  /// predicate over the accept bits of the schemas (and the document) that must hold
  law: fn(&[bool], &RV) -> bool,
  /// human description of the law
  text: &'static str,
}

fn relations(tier: Tier) -> Vec<Rel> {
  let ops = operands(tier);
  let mut out = vec![];
  for ctx in CONTEXTS {
    for a in &ops {
      for b in &ops {
        out.push(Rel {
          name: "choice",
          schemas: vec![schema(ctx, &format!("{a} / {b}")), schema(ctx, a), schema(ctx, b), schema(ctx, &format!("{b} / {a}"))],
          law: |x, _| x[0] == (x[1] || x[2]) && x[3] == x[0],
          text: "A / B accepts exactly when A or B does, in either order",
        });
        if a.contains(".ne [") || b.contains(".ne [") {
          continue; // array-valued .ne operands take part in the choice law only
        }
        let (pa, pb) = (t2(a), t2(b));
        out.push(Rel {
          name: "and-within",
          schemas: vec![schema(ctx, &format!("{pa} .and {pb}")), schema(ctx, &format!("{pa} .within {pb}")), schema(ctx, a), schema(ctx, b)],
          law: |x, _| x[0] == (x[2] && x[3]) && x[1] == x[0],
          text: "A .and B and A .within B accept exactly when both A and B do",
        });
      }
    }
    // the laws below involve a negation, which only carries over to the whole schema when the
    // operand must be present: not in the optional-trailing-element context
    if ctx.contains("? {X}") {
      continue;
    }
    // .ne / .eq
    for (t, v) in [("int", "1"), ("uint", "1"), ("number", "1"), ("tstr", "\"a\""), ("float", "1.5"), ("int", "-1"), ("tc", "\"a\""), ("(int / tstr)", "1"), ("any", "1"), ("bool", "true")] {
      out.push(Rel {
        name: "ne-eq",
        schemas: vec![schema(ctx, &format!("{t} .ne {v}")), schema(ctx, t), schema(ctx, &format!("{t} .eq {v}"))],
        law: |x, _| x[0] == (x[1] && !x[2]),
        text: "T .ne v accepts exactly the members of T that T .eq v rejects",
      });
    }
    // ranges: inclusive vs exclusive differ exactly at the upper bound
    for (lo, hi, hv) in [("0", "2", 2i64), ("-1", "1", 1), ("1", "1", 1), ("0", "256", 256), ("2", "0", 0)] {
      let hv_static: &'static i64 = Box::leak(Box::new(hv));
      let _ = hv_static;
      out.push(Rel {
        name: match hv {
          2 => "range-0-2",
          1 if lo == "-1" => "range--1-1",
          1 => "range-1-1",
          256 => "range-0-256",
          _ => "range-2-0",
        },
        schemas: vec![schema(ctx, &format!("{lo}..{hi}")), schema(ctx, &format!("{lo}...{hi}")), schema(ctx, hi)],
        // incl == excl || (doc position equals hi, i.e. the literal `hi` in the same context accepts, and the inclusive range is non-empty)
        law: |x, _| x[1] == (x[0] && !x[2]),
        text: "lo...hi accepts exactly what lo..hi accepts minus the documents on which the upper bound itself matches",
      });
    }
  }
  // the same law for ranges used as .size controllers (text and byte lengths)
  for ctx in CONTEXTS {
    if ctx.contains("? {X}") {
      continue;
    }
    for t in ["tstr", "bstr", "uint"] {
      for (lo, hi) in [("0", "1"), ("1", "2"), ("0", "3"), ("1", "3"), ("2", "3"), ("2", "2")] {
        out.push(Rel {
          name: "size-range",
          schemas: vec![schema(ctx, &format!("{t} .size ({lo}..{hi})")), schema(ctx, &format!("{t} .size ({lo}...{hi})")), schema(ctx, &format!("{t} .size {hi}"))],
          law: if t == "uint" {
            // for uint, .size n bounds the value by 256^n: the exclusive upper bound removes exactly the values that need the n-th byte
            |x, _| !x[1] || x[0]
          } else {
            |x, _| x[1] == (x[0] && !x[2])
          },
          text: "T .size (lo...hi) accepts exactly what T .size (lo..hi) accepts minus the values whose size is exactly hi",
        });
      }
    }
  }
  // occurrences (array and map contexts)
  for x in ["int", "tstr", "(int / tstr)", "[int]", "1", "tc", "a: int", "\"k\" => tstr", "tstr => int", "(int, tstr)"] {
    for (s, l) in [("?", "0*1"), ("*", "0*"), ("+", "1*")] {
      let keyed = x.contains(':') || x.contains("=>");
      let mut ctxs: Vec<String> = vec![];
      if keyed {
        ctxs.push("r = {{E}}".into());
        ctxs.push("r = {c: any, {E}}".into());
        ctxs.push("r = {{E}, * tstr => any}".into());
      }
      if !x.contains("=>") {
        ctxs.push("r = [{E}]".into());
        ctxs.push("r = [tstr, {E}]".into());
        ctxs.push("r = [{E}, int]".into());
      }
      for c in ctxs {
        out.push(Rel {
          name: "occurrence",
          schemas: vec![format!("{}{}", c.replace("{E}", &format!("{s} {x}")), LIB), format!("{}{}", c.replace("{E}", &format!("{l} {x}")), LIB)],
          law: |x, _| x[0] == x[1],
          text: "? x / * x / + x are interchangeable with 0*1 x / 0* x / 1* x",
        });
      }
    }
  }
  // prelude names = their Appendix D definitions
  let prelude: [(&str, &str, bool); 17] = [
    ("int", "uint / nint", false),
    ("number", "int / float", false),
    ("bool", "false / true", false),
    ("text", "tstr", false),
    ("bytes", "bstr", true),
    ("nil", "null", false),
    ("integer", "int / bigint", false),
    ("unsigned", "uint / biguint", false),
    ("float", "float16 / float32 / float64", false),
    ("uint", "#0", true),
    ("nint", "#1", true),
    ("bstr", "#2", true),
    ("tstr", "#3", true),
    ("false", "#7.20", true),
    ("true", "#7.21", true),
    ("nil", "#7.22", true),
    ("undefined", "#7.23", true),
  ];
  for ctx in CONTEXTS {
    for (n, def, _cbor_only) in prelude {
      out.push(Rel {
        name: "prelude",
        schemas: vec![schema(ctx, n), schema(ctx, &format!("({def})"))],
        law: |x, _| x[0] == x[1],
        text: "a prelude name accepts exactly what its RFC 8610 Appendix D definition accepts",
      });
    }
  }
  // a right-recursive group rule unfolds to an occurrence (re-entering a rule after elements were consumed is
  // ordinary recursion, not a loop)
  for (rec, flat) in [
    ("r = [a]\na = (int, ? a)", "r = [+ int]"),
    ("r = [tstr, a]\na = (int, ? a)", "r = [tstr, + int]"),
    ("r = [a]\na = (int, tstr, ? a)", "r = [+ (int, tstr)]"),
    ("r = [* a]\na = (int, tstr)", "r = [* (int, tstr)]"),
    ("r = {x: [a]}\na = (int, ? a)", "r = {x: [+ int]}"),
  ] {
    out.push(Rel {
      name: "recursive-group",
      schemas: vec![format!("{rec}{LIB}"), format!("{flat}{LIB}")],
      law: |x, _| x[0] == x[1],
      text: "a right-recursive group rule accepts exactly what its unfolding as an occurrence accepts",
    });
  }
  out
}

fn is_cbor_only(r: &Rel) -> bool {
  r.name == "prelude" && (r.schemas[1].contains('#') || r.schemas[1].contains("bstr") || r.schemas[1].contains("float16") || r.schemas[1].contains("float32"))
}

pub const F_GREEDY_JSON: &str = "C09-json-optional-type-keyed-member-vs-bounded-table";

/// Recorded finding (same root cause as C01-map-type-keyed-member-greedily-takes-key-of-later-member):
/// in the JSON validator a '?' type-keyed member claims the first key of its key type and fails on
/// its value, whereas the equivalent '0*1' member goes through the table path and skips it.
/// Attributed only for the occurrence identity, JSON, a type-keyed entry, and a listed state.
fn classify(r: &Rel, validator: &str, doc: &RV) -> Option<String> {
  if r.name == "occurrence" && validator == "json" && r.schemas[0].contains("tstr =>") && r.schemas[0].contains("? tstr =>") {
    let k = statelist::key(&[&r.schemas[0], &crate::cborref::rv_to_diag(doc)]);
    if statelist::listed(F_GREEDY_JSON, k) {
      return Some(F_GREEDY_JSON.into());
    }
  }
  None
}

pub fn check_rel(r: &Rel, d: &Docs, a: &mut Acc) {
  let runs: Vec<Option<(Vec<Obs>, Vec<Obs>)>> = r.schemas.iter().map(|s| run_schema(s, d)).collect();
  if runs.iter().any(|x| x.is_none()) {
    if std::env::var("VERIF_DEBUG").is_ok() {
      let k = runs.iter().position(|x| x.is_none()).unwrap();
      eprintln!("NOPARSE {}", r.schemas[k].lines().next().unwrap_or(""));
    }
    *a.skipped.entry(format!("{}: a schema does not parse", r.name)).or_insert(0) += 1;
    return;
  }
  let runs: Vec<(Vec<Obs>, Vec<Obs>)> = runs.into_iter().map(|x| x.unwrap()).collect();
  a.relations += 1;
  let mut varied = false;
  for (vi, validator) in ["json", "cbor"].iter().enumerate() {
    if vi == 0 && is_cbor_only(r) {
      continue;
    }
    let n = if vi == 0 { d.js.len() } else { d.rv.len() };
    let mut first: Option<bool> = None;
    for k in 0..n {
      let obs: Vec<&Obs> = runs.iter().map(|x| if vi == 0 { &x.0[k] } else { &x.1[k] }).collect();
      a.states += 1;
      if let Some(p) = obs.iter().find_map(|o| if let Obs::Panic(p) = o { Some(p.clone()) } else { None }) {
        a.v.push(Viol {
          kind: "panic".into(),
          case: json!({"identity": r.name, "validator": validator, "schemas": r.schemas, "doc": crate::cborref::rv_to_diag(&d.rv[k])}),
          observed: format!("PANIC {p}"),
          expected: "Ok or Err".into(),
          finding: None,
        });
        continue;
      }
      let bits: Option<Vec<bool>> = obs.iter().map(|o| acc(o)).collect();
      let Some(bits) = bits else {
        // some run ended in a non-validation error (e.g. an operator the validator does not
        // support on this operand): the identity cannot be evaluated there; counted
        *a.skipped.entry(format!("{}: non-validation error", r.name)).or_insert(0) += 1;
        continue;
      };
      match first {
        None => first = Some(bits[0]),
        Some(f) if f != bits[0] => varied = true,
        _ => {}
      }
      if !(r.law)(&bits, &d.rv[k]) {
        let finding = classify(r, validator, &d.rv[k]);
        a.v.push(Viol {
          kind: format!("{}-{}", r.name, validator),
          case: json!({"identity": r.name, "validator": validator, "schemas": r.schemas, "doc": crate::cborref::rv_to_diag(&d.rv[k]),
                       "cbor": hex(&crate::cborref::preferred(&d.rv[k])), "json": if d.is_json[k] { Some(to_json_text(&d.rv[k])) } else { None }}),
          observed: format!("verdicts {:?}", obs.iter().map(|o| o.short()).collect::<Vec<_>>()),
          expected: r.text.into(),
          finding,
        });
        break;
      }
    }
  }
  if varied {
    a.nontrivial += 1;
  }
  if a.samples.is_empty() && a.relations % 257 == 5 {
    a.samples.push(json!({"identity": r.name, "schemas": r.schemas, "law": r.text}));
  }
}

pub fn run(tier: Tier) -> i32 {
  quiet_panics();
  let mut run = Run::new("C09", tier, "model_checking");
  let d = documents(tier);
  let rels = relations(tier);
  let accs = par_sweep(rels.len(), 4, Acc::default, |i, a: &mut Acc| check_rel(&rels[i], &d, a));
  let mut skipped: BTreeMap<String, u64> = BTreeMap::new();
  for a in accs {
    run.absorb(a.v);
    run.states += a.states;
    run.transitions += a.relations;
    run.traces += a.states;
    run.nontrivial += a.nontrivial;
    for (k, v) in a.skipped {
      *skipped.entry(k).or_insert(0) += v;
    }
    for s in a.samples {
      run.sample(s);
    }
  }
  run.evaluations = run.states;
  run.set("identities_instantiated", json!(rels.len()));
  run.set("documents", json!({"json": d.js.len(), "cbor": d.rv.len()}));
  run.set("not_evaluable", json!(skipped));
  run.rule = "state = (identity instance, validator, document). Identity instances: A / B vs A, B, B / A and A .and B, A .within B vs A, B for every ordered pair of 21 (31 thorough) \
    operand types (prelude scalars, literals, a range, array / map / parenthesised-choice / named-choice / controlled operands); T .ne v vs T, T .eq v for 10 (T, v) pairs; inclusive vs \
    exclusive ranges for 5 bound pairs, also as .size controllers on tstr / bstr / uint for 6 bound pairs; each in 7 contexts (top level, array element, repeated array element, map value, map value next to an optional member, generic argument, optional \
    trailing array element; each context holds the operand at exactly one document position). ? * + vs 0*1 0* 1* for 10 entry kinds in array and map contexts. 17 prelude names vs their Appendix D definitions (the float16/32/64 = #7.25/26/27 width identities are left out: C02 demands that the verdict does not depend on the float width of the encoding, so the texts leave open what a width-specific type may reject) in the 7 contexts. Documents: the JSON universe \
    (both validators) plus CBOR-only values (CBOR validator). transition = one identity instance. Oracle: the law of the identity evaluated on the accept bits of the runs of the same validator. \
    non-trivial = identity instances whose subject schema accepts some and rejects some document."
    .into();
  run.finish()
}

pub fn replay(case: &serde_json::Value) -> Option<Viol> {
  let schemas: Vec<String> = case["schemas"].as_array()?.iter().filter_map(|x| x.as_str().map(|s| s.to_string())).collect();
  let name = case["identity"].as_str()?;
  let bytes = unhex(case["cbor"].as_str()?);
  let is_json = case["validator"] == "json";
  let obs: Vec<Obs> = schemas.iter().map(|s| if is_json { json_str(s, case["json"].as_str().unwrap_or("null")) } else { cbor_slice(s, &bytes) }).collect();
  let bits: Option<Vec<bool>> = obs.iter().map(|o| o.accepted()).collect();
  let bits = bits?;
  let ok = match name {
    "choice" => bits[0] == (bits[1] || bits[2]) && bits[3] == bits[0],
    "and-within" => bits[0] == (bits[2] && bits[3]) && bits[1] == bits[0],
    "ne-eq" => bits[0] == (bits[1] && !bits[2]),
    "occurrence" | "prelude" => bits[0] == bits[1],
    "size-range" if schemas[0].contains("uint .size") => !bits[1] || bits[0],
    _ => bits[1] == (bits[0] && !bits[2]),
  };
  (!ok).then(|| Viol { kind: name.into(), case: case.clone(), observed: format!("{:?}", obs.iter().map(|o| o.short()).collect::<Vec<_>>()), expected: String::new(), finding: None })
}
