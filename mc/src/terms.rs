//! Schema term universe: a harness-side algebraic datatype for CDDL (not the crate's
//! AST), text rendering, and a weight-ordered exhaustive enumerator.
use std::fmt::Write;

#[derive(Clone, Debug, PartialEq)]
pub enum Lit {
  Int(i128),
  Float(f64),
  Text(String),
  /// UTF-8 byte string literal 'abc'
  BytesUtf8(String),
  /// h'..' literal, given as bytes
  BytesHex(Vec<u8>),
}

#[derive(Clone, Debug, PartialEq)]
pub enum Op {
  RangeIncl,
  RangeExcl,
  Ctl(&'static str),
}

#[derive(Clone, Debug, PartialEq)]
pub enum TagNum {
  /// "#6(t)" - any tag
  Any,
  Lit(u64),
}

#[derive(Clone, Debug, PartialEq)]
pub enum T2 {
  Lit(Lit),
  /// typename with generic args (prelude names included)
  Name(String, Vec<T1>),
  Paren(Ty),
  Map(Grp),
  Arr(Grp),
  Unwrap(String, Vec<T1>),
  EnumInline(Grp),
  EnumRef(String, Vec<T1>),
  Tag(TagNum, Ty),
  /// #n or #n.m
  Major(u8, Option<u64>),
  /// "#"
  AnyHash,
}

#[derive(Clone, Debug, PartialEq)]
pub struct T1 {
  pub t2: T2,
  pub op: Option<(Op, T2)>,
}

#[derive(Clone, Debug, PartialEq)]
pub struct Ty(pub Vec<T1>);

#[derive(Clone, Debug, PartialEq)]
pub enum Occ {
  One,
  Opt,
  Star,
  Plus,
  /// n*m with optional bounds
  Range(Option<u64>, Option<u64>),
}

#[derive(Clone, Debug, PartialEq)]
pub enum Key {
  /// `name:`
  Bare(String),
  /// `value:` (literal followed by colon)
  LitColon(Lit),
  /// `type1 =>` / `type1 ^ =>`
  Arrow(T1, bool),
}

#[derive(Clone, Debug, PartialEq)]
pub enum EK {
  Val(Option<Key>, Ty),
  Ref(String, Vec<T1>),
  Inline(Grp),
}

#[derive(Clone, Debug, PartialEq)]
pub struct Entry {
  pub occ: Occ,
  pub kind: EK,
}

/// group = choices of entry lists
#[derive(Clone, Debug, PartialEq)]
pub struct Grp(pub Vec<Vec<Entry>>);

#[derive(Clone, Debug, PartialEq)]
pub enum Assign {
  Eq,
  TAlt,
  GAlt,
}

#[derive(Clone, Debug, PartialEq)]
pub enum Body {
  Type(Ty),
  Group(Entry),
}

#[derive(Clone, Debug, PartialEq)]
pub struct RuleT {
  pub name: String,
  pub params: Vec<String>,
  pub assign: Assign,
  pub body: Body,
}

#[derive(Clone, Debug, PartialEq)]
pub struct Schema(pub Vec<RuleT>);

// ------------------------------------------------------------ constructors

pub fn name(s: &str) -> T2 {
  T2::Name(s.to_string(), vec![])
}
pub fn t1(t2: T2) -> T1 {
  T1 { t2, op: None }
}
pub fn ty1(t2: T2) -> Ty {
  Ty(vec![t1(t2)])
}
pub fn int(n: i128) -> T2 {
  T2::Lit(Lit::Int(n))
}
pub fn text(s: &str) -> T2 {
  T2::Lit(Lit::Text(s.to_string()))
}
pub fn ctl(t: T2, op: &'static str, a: T2) -> T1 {
  T1 { t2: t, op: Some((Op::Ctl(op), a)) }
}
pub fn range(lo: T2, hi: T2, incl: bool) -> T1 {
  T1 { t2: lo, op: Some((if incl { Op::RangeIncl } else { Op::RangeExcl }, hi)) }
}
pub fn type_rule(n: &str, ty: Ty) -> RuleT {
  RuleT { name: n.to_string(), params: vec![], assign: Assign::Eq, body: Body::Type(ty) }
}
pub fn group_rule(n: &str, e: Entry) -> RuleT {
  RuleT { name: n.to_string(), params: vec![], assign: Assign::Eq, body: Body::Group(e) }
}
pub fn ent(occ: Occ, ty: Ty) -> Entry {
  Entry { occ, kind: EK::Val(None, ty) }
}

// ------------------------------------------------------------ rendering

pub fn esc_text(s: &str) -> String {
  let mut o = String::new();
  for c in s.chars() {
    match c {
      '"' => o.push_str("\\\""),
      '\\' => o.push_str("\\\\"),
      '\n' => o.push_str("\\n"),
      '\r' => o.push_str("\\r"),
      '\t' => o.push_str("\\t"),
      c => o.push(c),
    }
  }
  o
}

pub fn fmt_float(f: f64) -> String {
  // always spelled so that the CDDL grammar reads a float (fraction or exponent)
  let s = format!("{:?}", f);
  if s.contains('.') || s.contains('e') {
    s
  } else {
    format!("{s}.0")
  }
}

impl Lit {
  pub fn render(&self) -> String {
    match self {
      Lit::Int(n) => n.to_string(),
      Lit::Float(f) => fmt_float(*f),
      Lit::Text(s) => format!("\"{}\"", esc_text(s)),
      Lit::BytesUtf8(s) => format!("'{}'", s),
      Lit::BytesHex(b) => format!("h'{}'", crate::core::hex(b)),
    }
  }
}

fn args(o: &mut String, a: &[T1]) {
  if !a.is_empty() {
    o.push('<');
    for (i, x) in a.iter().enumerate() {
      if i > 0 {
        o.push_str(", ");
      }
      x.write(o);
    }
    o.push('>');
  }
}

impl T2 {
  pub fn write(&self, o: &mut String) {
    match self {
      T2::Lit(l) => o.push_str(&l.render()),
      T2::Name(n, a) => {
        o.push_str(n);
        args(o, a)
      }
      T2::Paren(t) => {
        o.push('(');
        t.write(o);
        o.push(')')
      }
      T2::Map(g) => {
        o.push('{');
        g.write(o);
        o.push('}')
      }
      T2::Arr(g) => {
        o.push('[');
        g.write(o);
        o.push(']')
      }
      T2::Unwrap(n, a) => {
        o.push('~');
        o.push_str(n);
        args(o, a)
      }
      T2::EnumInline(g) => {
        o.push_str("&(");
        g.write(o);
        o.push(')')
      }
      T2::EnumRef(n, a) => {
        o.push('&');
        o.push_str(n);
        args(o, a)
      }
      T2::Tag(n, t) => {
        match n {
          TagNum::Any => o.push_str("#6("),
          TagNum::Lit(n) => {
            let _ = write!(o, "#6.{}(", n);
          }
        }
        t.write(o);
        o.push(')')
      }
      T2::Major(m, None) => {
        let _ = write!(o, "#{}", m);
      }
      T2::Major(m, Some(n)) => {
        let _ = write!(o, "#{}.{}", m, n);
      }
      T2::AnyHash => o.push('#'),
    }
  }
}
impl T1 {
  pub fn write(&self, o: &mut String) {
    self.t2.write(o);
    if let Some((op, a)) = &self.op {
      match op {
        Op::RangeIncl => o.push_str(".."),
        Op::RangeExcl => o.push_str("..."),
        Op::Ctl(n) => {
          o.push_str(" .");
          o.push_str(n);
          o.push(' ')
        }
      }
      a.write(o);
    }
  }
}
impl Ty {
  pub fn write(&self, o: &mut String) {
    for (i, t) in self.0.iter().enumerate() {
      if i > 0 {
        o.push_str(" / ");
      }
      t.write(o);
    }
  }
  pub fn render(&self) -> String {
    let mut s = String::new();
    self.write(&mut s);
    s
  }
}
impl Occ {
  pub fn write(&self, o: &mut String) {
    match self {
      Occ::One => {}
      Occ::Opt => o.push_str("? "),
      Occ::Star => o.push_str("* "),
      Occ::Plus => o.push_str("+ "),
      Occ::Range(a, b) => {
        if let Some(a) = a {
          let _ = write!(o, "{}", a);
        }
        o.push('*');
        if let Some(b) = b {
          let _ = write!(o, "{}", b);
        }
        o.push(' ');
      }
    }
  }
  pub fn bounds(&self) -> (u64, Option<u64>) {
    match self {
      Occ::One => (1, Some(1)),
      Occ::Opt => (0, Some(1)),
      Occ::Star => (0, None),
      Occ::Plus => (1, None),
      Occ::Range(a, b) => (a.unwrap_or(0), *b),
    }
  }
}
impl Key {
  pub fn write(&self, o: &mut String) {
    match self {
      Key::Bare(s) => {
        o.push_str(s);
        o.push_str(": ")
      }
      Key::LitColon(l) => {
        o.push_str(&l.render());
        o.push_str(": ")
      }
      Key::Arrow(t, cut) => {
        t.write(o);
        o.push_str(if *cut { " ^ => " } else { " => " })
      }
    }
  }
}
impl Entry {
  pub fn write(&self, o: &mut String) {
    self.occ.write(o);
    match &self.kind {
      EK::Val(k, t) => {
        if let Some(k) = k {
          k.write(o);
        }
        t.write(o)
      }
      EK::Ref(n, a) => {
        o.push_str(n);
        args(o, a)
      }
      EK::Inline(g) => {
        o.push('(');
        g.write(o);
        o.push(')')
      }
    }
  }
}
impl Grp {
  pub fn write(&self, o: &mut String) {
    for (i, c) in self.0.iter().enumerate() {
      if i > 0 {
        o.push_str(" // ");
      }
      for (j, e) in c.iter().enumerate() {
        if j > 0 {
          o.push_str(", ");
        }
        e.write(o);
      }
    }
  }
}
impl RuleT {
  pub fn write(&self, o: &mut String) {
    o.push_str(&self.name);
    if !self.params.is_empty() {
      o.push('<');
      o.push_str(&self.params.join(", "));
      o.push('>');
    }
    o.push_str(match self.assign {
      Assign::Eq => " = ",
      Assign::TAlt => " /= ",
      Assign::GAlt => " //= ",
    });
    match &self.body {
      Body::Type(t) => t.write(o),
      Body::Group(e) => e.write(o),
    }
  }
}
impl Schema {
  pub fn render(&self) -> String {
    let mut o = String::new();
    for r in &self.0 {
      r.write(&mut o);
      o.push('\n');
    }
    o
  }
}

// ------------------------------------------------------------ enumerator

/// Alphabet and shape limits of one enumeration.
#[derive(Clone)]
pub struct Cfg {
  /// weight-1 leaf type2s (prelude names, literals, references to helper rules)
  pub atoms: Vec<T2>,
  /// weight-2 pre-composed type1s (ranges, controls over atoms)
  pub t1s: Vec<T1>,
  /// occurrence indicators other than One (each costs 1)
  pub occs: Vec<Occ>,
  /// member keys usable in maps (each costs 1)
  pub map_keys: Vec<Key>,
  /// member keys usable in arrays (annotation only)
  pub arr_keys: Vec<Key>,
  /// names of group rules that can be referenced as entries (weight 1)
  pub group_refs: Vec<String>,
  pub max_choice: usize,
  pub max_entries: usize,
  pub max_gchoice: usize,
  pub arrays: bool,
  pub maps: bool,
  pub inline_groups: bool,
  pub parens: bool,
  pub tags: Vec<TagNum>,
  /// entries without a key inside maps (RFC meaning open) are not generated
  pub max_depth: usize,
}

pub struct Enum<'c> {
  pub cfg: &'c Cfg,
  t1: Vec<Vec<Vec<T1>>>,  // [depth][weight]
  ty: Vec<Vec<Vec<Ty>>>,
  pub transitions: u64,
}

impl<'c> Enum<'c> {
  /// Build all tables up to weight `w` (bottom-up, so every term of weight k is
  /// produced from terms of smaller weight by exactly one constructor application).
  pub fn new(cfg: &'c Cfg, w: usize) -> Enum<'c> {
    let mut e = Enum { cfg, t1: vec![], ty: vec![], transitions: 0 };
    // depth d = remaining container nesting allowed
    for d in 0..=cfg.max_depth {
      e.t1.push(vec![vec![]; w + 1]);
      e.ty.push(vec![vec![]; w + 1]);
      for k in 1..=w {
        let a = e.gen_t1(d, k);
        e.transitions += a.len() as u64;
        e.t1[d][k] = a;
        let b = e.gen_ty(d, k);
        e.transitions += b.len() as u64;
        e.ty[d][k] = b;
      }
    }
    e
  }
  pub fn types(&self, w: usize) -> &Vec<Ty> {
    &self.ty[self.cfg.max_depth][w]
  }
  fn gen_t1(&self, d: usize, w: usize) -> Vec<T1> {
    let c = self.cfg;
    let mut out = vec![];
    if w == 1 {
      out.extend(c.atoms.iter().cloned().map(t1));
    }
    if w == 2 {
      out.extend(c.t1s.iter().cloned());
    }
    if d > 0 && w >= 1 {
      if c.arrays {
        for g in self.groups(d - 1, w - 1, false) {
          out.push(t1(T2::Arr(g)));
        }
      }
      if c.maps {
        for g in self.groups(d - 1, w - 1, true) {
          out.push(t1(T2::Map(g)));
        }
      }
      if w >= 2 {
        for tn in &c.tags {
          for t in &self.ty[d - 1][w - 1] {
            out.push(t1(T2::Tag(tn.clone(), t.clone())));
          }
        }
      }
    }
    if c.parens && w >= 4 {
      // parenthesised multi-choice type (the only place parentheses change parsing)
      for t in &self.ty[d][w - 1] {
        if t.0.len() >= 2 {
          out.push(t1(T2::Paren(t.clone())));
        }
      }
    }
    out
  }
  fn gen_ty(&self, d: usize, w: usize) -> Vec<Ty> {
    let mut out: Vec<Ty> = self.t1[d][w].iter().cloned().map(|x| Ty(vec![x])).collect();
    // choices: first alternative of weight a, rest of weight w-1-a
    if self.cfg.max_choice >= 2 && w >= 3 {
      for a in 1..=(w - 2) {
        let rest_w = w - 1 - a;
        for first in &self.t1[d][a] {
          for rest in &self.ty[d][rest_w] {
            if rest.0.len() + 1 <= self.cfg.max_choice {
              let mut v = vec![first.clone()];
              v.extend(rest.0.iter().cloned());
              out.push(Ty(v));
            }
          }
        }
      }
    }
    out
  }
  /// entries of exact weight w usable in an array (map=false) or map (map=true)
  fn entries(&self, d: usize, w: usize, map: bool) -> Vec<Entry> {
    let c = self.cfg;
    let mut out = vec![];
    let mut occs = vec![(Occ::One, 0usize)];
    occs.extend(c.occs.iter().cloned().map(|o| (o, 1)));
    for (occ, oc) in occs {
      if w <= oc {
        continue;
      }
      let rem = w - oc;
      if map {
        // key + type
        if rem >= 2 {
          for k in &c.map_keys {
            for t in &self.ty[d][rem - 1] {
              out.push(Entry { occ: occ.clone(), kind: EK::Val(Some(k.clone()), t.clone()) });
            }
          }
        }
      } else {
        for t in &self.ty[d][rem] {
          out.push(Entry { occ: occ.clone(), kind: EK::Val(None, t.clone()) });
        }
        if rem >= 2 {
          for k in &c.arr_keys {
            for t in &self.ty[d][rem - 1] {
              out.push(Entry { occ: occ.clone(), kind: EK::Val(Some(k.clone()), t.clone()) });
            }
          }
        }
      }
      if rem == 1 {
        for g in &c.group_refs {
          out.push(Entry { occ: occ.clone(), kind: EK::Ref(g.clone(), vec![]) });
        }
      }
      if c.inline_groups && rem >= 2 {
        for g in self.groups(d, rem - 1, map) {
          // an inline group with a single entry and no choice is still a distinct shape
          out.push(Entry { occ: occ.clone(), kind: EK::Inline(g) });
        }
      }
    }
    out
  }
  /// entry lists (one group choice) of exact total weight w
  fn choice_lists(&self, d: usize, w: usize, map: bool, max_len: usize) -> Vec<Vec<Entry>> {
    if w == 0 {
      return vec![vec![]];
    }
    if max_len == 0 {
      return vec![];
    }
    let mut out = vec![];
    for a in 1..=w {
      let firsts = self.entries(d, a, map);
      if firsts.is_empty() {
        continue;
      }
      let rests = self.choice_lists(d, w - a, map, max_len - 1);
      for f in &firsts {
        for r in &rests {
          let mut v = vec![f.clone()];
          v.extend(r.iter().cloned());
          out.push(v);
        }
      }
    }
    out
  }
  pub fn groups(&self, d: usize, w: usize, map: bool) -> Vec<Grp> {
    let c = self.cfg;
    let mut out: Vec<Grp> = self.choice_lists(d, w, map, c.max_entries).into_iter().map(|l| Grp(vec![l])).collect();
    if c.max_gchoice >= 2 && w >= 1 {
      // two group choices; "//" costs 1
      for a in 0..=(w - 1) {
        let b = w - 1 - a;
        let la = self.choice_lists(d, a, map, c.max_entries);
        let lb = self.choice_lists(d, b, map, c.max_entries);
        for x in &la {
          for y in &lb {
            out.push(Grp(vec![x.clone(), y.clone()]));
          }
        }
      }
    }
    out
  }
}
