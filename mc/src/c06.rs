//! C06 — format(parse(D)) parses, preserves the AST up to positions, and is idempotent.
use crate::core::*;
use crate::shape;
use crate::syn::*;
use crate::terms::*;
use serde_json::json;
use std::collections::BTreeMap;

pub enum Out {
  /// the text is not an accepted document (outside the property's quantifier)
  Rejected,
  Held,
  Bad(Viol),
}

fn viol(kind: &str, text: &str, observed: String, expected: &str) -> Viol {
  let mut v = Viol { kind: kind.into(), case: json!({"cddl": text}), observed, expected: expected.into(), finding: None };
  v.finding = classify(&v);
  v
}

/// closed vocabulary of recorded C06 findings (known_findings.jsonl); None = judged normally
pub fn classify(_v: &Viol) -> Option<String> {
  None
}

pub fn check_text(text: &str) -> Out {
  let a1 = match catch(|| cddl::cddl_from_str(text, false)) {
    Ok(Ok(a)) => a,
    Ok(Err(_)) => return Out::Rejected,
    Err(p) => return Out::Bad(viol("parse-panic", text, format!("PANIC {p}"), "Ok or Err")),
  };
  let sh1 = shape::cddl(&a1).shape();
  let s1 = match catch(|| a1.to_string()) {
    Ok(s) => s,
    Err(p) => return Out::Bad(viol("format-panic", text, format!("PANIC {p}"), "formatted text")),
  };
  let a2 = match catch(|| cddl::cddl_from_str(&s1, false)) {
    Ok(Ok(a)) => a,
    Ok(Err(e)) => {
      return Out::Bad(viol("reparse-fails", text, format!("formatted text {:?} is rejected: {}", s1, trunc(&e)), "formatted text is accepted"))
    }
    Err(p) => return Out::Bad(viol("parse-panic", text, format!("PANIC on formatted text {:?}: {p}", s1), "Ok or Err")),
  };
  let sh2 = shape::cddl(&a2).shape();
  if sh1 != sh2 {
    return Out::Bad(viol(
      "ast-changed",
      text,
      format!("formatted {:?} parses to {}", s1, first_diff(&sh1, &sh2)),
      "AST equal to the original up to positions",
    ));
  }
  let s2 = match catch(|| a2.to_string()) {
    Ok(s) => s,
    Err(p) => return Out::Bad(viol("format-panic", text, format!("PANIC {p}"), "formatted text")),
  };
  if s2 != s1 {
    return Out::Bad(viol("not-idempotent", text, format!("first {:?} second {:?}", s1, s2), "second formatting reproduces the first"));
  }
  Out::Held
}

pub fn first_diff(a: &str, b: &str) -> String {
  let ab = a.as_bytes();
  let bb = b.as_bytes();
  let mut i = 0;
  while i < ab.len() && i < bb.len() && ab[i] == bb[i] {
    i += 1;
  }
  let mut lo = i.saturating_sub(40);
  while !a.is_char_boundary(lo) {
    lo -= 1;
  }
  let cut = |s: &str| {
    let mut hi = (i + 60).min(s.len());
    while !s.is_char_boundary(hi) {
      hi += 1;
    }
    s.get(lo..hi).unwrap_or("").to_string()
  };
  format!("…{}… instead of …{}…", cut(b), cut(a))
}

#[derive(Default)]
struct Acc {
  v: VAcc,
  accepted: u64,
  rejected: u64,
  kinds: BTreeMap<String, u64>,
  samples: Vec<serde_json::Value>,
  rej_samples: Vec<String>,
  changed_by_format: u64,
}

fn sweep(run: &mut Run, docs: &[String], label: &str) {
  let accs = par_sweep(docs.len(), 64, Acc::default, |i, a: &mut Acc| {
    let text = &docs[i];
    match check_text(text) {
      Out::Rejected => {
        a.rejected += 1;
        if a.rej_samples.len() < 2 {
          a.rej_samples.push(text.clone());
        }
      }
      Out::Held => {
        a.accepted += 1;
        if a.samples.len() < 1 && i % 1013 == 7 {
          a.samples.push(json!({"cddl": text, "formatted": cddl::cddl_from_str(text, false).map(|x| x.to_string()).unwrap_or_default()}));
        }
      }
      Out::Bad(v) => {
        a.accepted += 1;
        *a.kinds.entry(v.kind.clone()).or_insert(0) += 1;
        a.v.push(v);
      }
    }
  });
  let mut acc = 0;
  let mut rej = 0;
  let mut rs = vec![];
  for a in accs {
    run.absorb(a.v);
    acc += a.accepted;
    rej += a.rejected;
    for s in a.samples {
      run.sample(s);
    }
    rs.extend(a.rej_samples);
    let _ = a.changed_by_format;
  }
  run.states += acc;
  run.transitions += acc * 2; // format edge and re-format edge of every accepted state
  run.evaluations += docs.len() as u64;
  run.nontrivial += acc;
  run.set(&format!("family_{label}"), json!({"texts": docs.len(), "accepted": acc, "rejected_by_parser": rej, "rejected_examples": rs.into_iter().take(3).collect::<Vec<_>>()}));
}

pub fn families(tier: Tier) -> Vec<(&'static str, Vec<String>)> {
  let cfg = syntax_cfg(tier);
  let w = std::env::var("VERIF_W").ok().and_then(|s| s.parse().ok()).unwrap_or(tier.pick(4usize, 5usize));
  let en = Enum::new(&cfg, w);
  let f1 = docs_types(&en, w);
  let f2 = docs_headers(&en, w.min(tier.pick(3, 4)));
  let f3 = docs_multi(tier);
  let mut f4 = vec![];
  for (i, d) in f1.iter().enumerate() {
    // alternate spellings of every 1st-family document (variant chosen round-robin for
    // quick, all variants for thorough)
    if tier == Tier::Thorough {
      for v in 1..=3 {
        f4.push(respell(d, v));
      }
    } else {
      f4.push(respell(d, 1 + i % 3));
    }
  }
  vec![("types", f1), ("rule_headers", f2), ("multi_rule", f3), ("respelled", f4), ("control_operators", docs_operators()), ("literals", literal_docs())]
}

/// boundary literals in every position a value can stand in: the printer has one routine per literal kind, and what it
/// prints must read back as the same literal of the same kind
pub fn literal_docs() -> Vec<String> {
  let lits = [
    "-0", "'x\ny'", "h'01\n02'", "b64'AQ\nID'", "0", "1", "-1", "23", "24", "255", "256", "65535", "65536", "4294967295", "4294967296", "9223372036854775807", "9223372036854775808", "18446744073709551615", "-9223372036854775808",
    "-9223372036854775809", "-18446744073709551616", "0x10", "0b101", "-0x1F", "0.0", "-0.0", "1.0", "1.5", "0.1", "1e-7", "1e3", "1e15", "1e16", "1e17", "9.0e18", "9223372036854775808.0", "1e19", "1e20",
    "1.8446744073709552e19", "-2.5e30", "1e300", "1.7976931348623157e308", "5e-324", "123456789.125", "0x1p3", "0x1.8p-3", "-0x1p4", "\"\"", "\"a\"", "\"\\\"\\\\\"", "\"\\u00e9\\n\"",
    "\"\\ud83d\\ude00\"", "\"x\\u007fy\"", "\"\\u007f\"", "\"it's\"", "'say \"hi'", "'a'", "''", "h'00ff'", "h''", "b64'AQID'", "'\\''",
  ];
  let ctxs = ["r = [ @ // int // bool ]", "r = { @: int // c: 1 // d: 2 }", "r = [ a: 1, b: 2, c: 3, d: 4 // @ // f: 6 ]", "r = {@: int}", "r = @", "r = @ / int", "r = [@]", "r = [@, @]", "r = {@ => int}", "r = {a: @}", "r = 0..@", "r = @...@", "r = int .lt @", "r = tstr .default @", "r = m<@>\nm<t> = t", "r = [2*3 @]", "r = #6.1(@)", "r = (@)", "r = {? @ ^ => @}"];
  let mut out = vec![];
  for l in lits {
    for c in ctxs {
      out.push(format!("{}\n", c.replace('@', l)));
    }
  }
  out
}

pub fn run(tier: Tier) -> i32 {
  quiet_panics();
  let mut run = Run::new("C06", tier, "model_checking");
  for (label, docs) in families(tier) {
    sweep(&mut run, &docs, label);
  }
  run.traces = run.states;
  run.rule = "state = one accepted CDDL text. Texts: (types) `r = T` for every type term T up to the weight bound over a syntax alphabet covering every \
    construct kind (all literal kinds incl. floats with integral value, hex/binary/hex-float numbers, text with quote, backslash, non-ASCII, the three byte-string \
    forms, #, #6, #n, #n.m, non-literal tag numbers, ~unwrap, &enum, generic arguments, sockets, ranges, 22+ control operators, every occurrence form, every \
    member-key form incl. cuts, inline groups, group choices, parenthesised types, nesting depth 2); (rule_headers) generic parameters, /= and //= increments, \
    sockets, group rules over every entry list; (control_operators) each of the 37 registered control operator names x 6 operand shapes x 4 positions; (multi_rule) all ordered pairs (thorough: triples) of 12 representative rules; (respelled) comma-free, \
    multi-line and tab/CRLF spellings; (literals) 62 boundary literals (integers around 2^8 .. 2^64, floats around 2^53, 2^63, 2^64 and the ends of the f64 range, hex floats, text with escapes, byte strings) x 19 positions. transitions = format edge s1=Display(parse(D)) and re-format edge Display(parse(s1)) from every state. Oracle on every \
    state: s1 is accepted; shape(parse(s1)) == shape(parse(D)) where shape keeps everything but spans, comment fields and optional commas; second formatting == s1. \
    Texts the parser rejects are outside the quantifier and only counted. non-trivial = accepted states (each exercises parse, print, re-parse, re-print)."
    .into();
  run.assumptions = vec!["optional commas are layout, not meaning: OptionalComma.optional_comma is not part of the compared shape".into()];
  run.finish()
}

pub fn replay(case: &serde_json::Value) -> Option<Viol> {
  match check_text(case["cddl"].as_str()?) {
    Out::Bad(v) => Some(v),
    _ => None,
  }
}

#[allow(dead_code)]
pub fn unused(_: &Ty) {}
