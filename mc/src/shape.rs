//! Canonical projection of the crate's public AST (DESIGN.md 4.7): a plain tree that keeps
//! what the parser-facing properties can observe (kinds, names, operators, literal kinds and
//! values, nesting), with spans and comment fields kept on the side.
use cddl::ast::*;
use cddl::token::{ByteValue, TagConstraint, Value};

pub type Sp = (usize, usize, usize);

#[derive(Clone, Debug)]
pub struct N {
  pub kind: &'static str,
  pub label: String,
  pub span: Option<Sp>,
  pub children: Vec<N>,
  /// (field name, comment strings) for every non-empty comment field of this node
  pub comments: Vec<(&'static str, Vec<String>)>,
}

impl N {
  fn new(kind: &'static str, label: impl Into<String>, span: Option<Sp>) -> N {
    N { kind, label: label.into(), span, children: vec![], comments: vec![] }
  }
  fn c(mut self, n: N) -> N {
    self.children.push(n);
    self
  }
  fn oc(mut self, n: Option<N>) -> N {
    if let Some(n) = n {
      self.children.push(n);
    }
    self
  }
  fn cm(mut self, name: &'static str, c: &Option<Comments>) -> N {
    if let Some(c) = c {
      if !c.0.is_empty() {
        self.comments.push((name, c.0.iter().map(|s| s.to_string()).collect()));
      }
    }
    self
  }
  /// structural rendering without spans and comments: equality of these strings is
  /// "equal up to source positions (and comment attachment)"
  pub fn shape(&self) -> String {
    let mut s = String::new();
    self.write_shape(&mut s);
    s
  }
  fn write_shape(&self, o: &mut String) {
    o.push_str(self.kind);
    if !self.label.is_empty() {
      o.push('<');
      o.push_str(&self.label);
      o.push('>');
    }
    if !self.children.is_empty() {
      o.push('(');
      for (i, c) in self.children.iter().enumerate() {
        if i > 0 {
          o.push(' ');
        }
        c.write_shape(o);
      }
      o.push(')');
    }
  }
  pub fn count(&self) -> usize {
    1 + self.children.iter().map(|c| c.count()).sum::<usize>()
  }
  pub fn walk<'a>(&'a self, f: &mut dyn FnMut(&'a N, Option<&'a N>)) {
    fn go<'a>(n: &'a N, p: Option<&'a N>, f: &mut dyn FnMut(&'a N, Option<&'a N>)) {
      f(n, p);
      for c in &n.children {
        go(c, Some(n), f);
      }
    }
    go(self, None, f)
  }
  /// all comment strings (excluding the "\n" placeholders) in tree order with their field
  pub fn all_comments(&self) -> Vec<(&'static str, &'static str, String)> {
    let mut out = vec![];
    self.walk(&mut |n, _| {
      for (f, cs) in &n.comments {
        for c in cs {
          if c != "\n" {
            out.push((n.kind, *f, c.clone()));
          }
        }
      }
    });
    out
  }
}

pub fn float_label(f: f64) -> String {
  format!("{:016x}", f.to_bits())
}
fn hexs(b: &[u8]) -> String {
  crate::core::hex(b)
}

pub fn cddl(c: &CDDL) -> N {
  let mut n = N::new("cddl", "", None).cm("comments", &c.comments);
  for r in &c.rules {
    n.children.push(rule(r));
  }
  n
}

pub fn ident(i: &Identifier) -> N {
  let sock = match i.socket {
    None => "",
    Some(cddl::token::SocketPlug::TYPE) => "$",
    Some(cddl::token::SocketPlug::GROUP) => "$$",
  };
  N::new("ident", format!("{}{}", sock, i.ident), Some(i.span))
}

fn gparams(g: &GenericParams) -> N {
  let mut n = N::new("gparams", "", Some(g.span));
  for p in &g.params {
    n.children.push(
      N::new("gparam", "", None)
        .c(ident(&p.param))
        .cm("comments_before_ident", &p.comments_before_ident)
        .cm("comments_after_ident", &p.comments_after_ident),
    );
  }
  n
}
fn gargs(g: &GenericArgs) -> N {
  let mut n = N::new("gargs", "", Some(g.span));
  for a in &g.args {
    n.children.push(
      N::new("garg", "", None)
        .c(type1(&a.arg))
        .cm("comments_before_type", &a.comments_before_type)
        .cm("comments_after_type", &a.comments_after_type),
    );
  }
  n
}

pub fn rule(r: &Rule) -> N {
  match r {
    Rule::Type { rule, span, comments_before_rule, comments_after_rule } => N::new(
      "typerule",
      if rule.is_type_choice_alternate { "/=" } else { "=" },
      Some(*span),
    )
    .c(ident(&rule.name))
    .oc(rule.generic_params.as_ref().map(gparams))
    .c(ty(&rule.value))
    .cm("comments_before_rule", comments_before_rule)
    .cm("comments_after_rule", comments_after_rule)
    .cm("comments_before_assignt", &rule.comments_before_assignt)
    .cm("comments_after_assignt", &rule.comments_after_assignt),
    Rule::Group { rule, span, comments_before_rule, comments_after_rule } => N::new(
      "grouprule",
      if rule.is_group_choice_alternate { "//=" } else { "=" },
      Some(*span),
    )
    .c(ident(&rule.name))
    .oc(rule.generic_params.as_ref().map(gparams))
    .c(entry(&rule.entry))
    .cm("comments_before_rule", comments_before_rule)
    .cm("comments_after_rule", comments_after_rule)
    .cm("comments_before_assigng", &rule.comments_before_assigng)
    .cm("comments_after_assigng", &rule.comments_after_assigng),
  }
}

pub fn ty(t: &Type) -> N {
  let mut n = N::new("type", "", Some(t.span));
  for tc in &t.type_choices {
    let mut c = type1(&tc.type1);
    if let Some(x) = &tc.comments_before_type {
      if !x.0.is_empty() {
        c.comments.push(("tc.comments_before_type", x.0.iter().map(|s| s.to_string()).collect()));
      }
    }
    if let Some(x) = &tc.comments_after_type {
      if !x.0.is_empty() {
        c.comments.push(("tc.comments_after_type", x.0.iter().map(|s| s.to_string()).collect()));
      }
    }
    n.children.push(c);
  }
  n
}

pub fn type1(t: &Type1) -> N {
  let mut n = N::new("type1", "", Some(t.span)).cm("comments_after_type", &t.comments_after_type);
  n.children.push(type2(&t.type2));
  if let Some(op) = &t.operator {
    let (l, sp) = match &op.operator {
      RangeCtlOp::RangeOp { is_inclusive, span } => ((if *is_inclusive { ".." } else { "..." }).to_string(), *span),
      RangeCtlOp::CtlOp { ctrl, span } => (format!(".{:?}", ctrl), *span), // Debug (variant name): independent of the printer under test
    };
    n.children.push(
      N::new("op", l, Some(sp))
        .cm("comments_before_operator", &op.comments_before_operator)
        .cm("comments_after_operator", &op.comments_after_operator),
    );
    n.children.push(type2(&op.type2));
  }
  n
}

pub fn tagc(t: &Option<TagConstraint>) -> String {
  match t {
    None => "".into(),
    Some(TagConstraint::Literal(n)) => format!(".{n}"),
    Some(TagConstraint::Type(s)) => format!(".<{s}>"),
  }
}

pub fn type2(t: &Type2) -> N {
  match t {
    Type2::IntValue { value, span } => N::new("int", value.to_string(), Some(*span)),
    Type2::UintValue { value, span } => N::new("uint", value.to_string(), Some(*span)),
    Type2::FloatValue { value, span } => N::new("float", float_label(*value), Some(*span)),
    Type2::TextValue { value, span } => N::new("text", format!("{:?}", value), Some(*span)),
    Type2::UTF8ByteString { value, span } => N::new("bytes_utf8", hexs(value), Some(*span)),
    Type2::B16ByteString { value, span } => N::new("bytes_b16", hexs(value), Some(*span)),
    Type2::B64ByteString { value, span } => N::new("bytes_b64", hexs(value), Some(*span)),
    Type2::Typename { ident: i, generic_args, span } => {
      N::new("typename", "", Some(*span)).c(ident(i)).oc(generic_args.as_ref().map(gargs))
    }
    Type2::ParenthesizedType { pt, span, comments_before_type, comments_after_type } => N::new("paren", "", Some(*span))
      .c(ty(pt))
      .cm("comments_before_type", comments_before_type)
      .cm("comments_after_type", comments_after_type),
    Type2::Map { group: g, span, comments_before_group, comments_after_group } => N::new("map", "", Some(*span))
      .c(group(g))
      .cm("comments_before_group", comments_before_group)
      .cm("comments_after_group", comments_after_group),
    Type2::Array { group: g, span, comments_before_group, comments_after_group } => N::new("array", "", Some(*span))
      .c(group(g))
      .cm("comments_before_group", comments_before_group)
      .cm("comments_after_group", comments_after_group),
    Type2::Unwrap { ident: i, generic_args, span, comments } => {
      N::new("unwrap", "", Some(*span)).c(ident(i)).oc(generic_args.as_ref().map(gargs)).cm("comments", comments)
    }
    Type2::ChoiceFromInlineGroup { group: g, span, comments, comments_before_group, comments_after_group } => {
      N::new("enum_inline", "", Some(*span))
        .c(group(g))
        .cm("comments", comments)
        .cm("comments_before_group", comments_before_group)
        .cm("comments_after_group", comments_after_group)
    }
    Type2::ChoiceFromGroup { ident: i, generic_args, span, comments } => {
      N::new("enum_ref", "", Some(*span)).c(ident(i)).oc(generic_args.as_ref().map(gargs)).cm("comments", comments)
    }
    Type2::TaggedData { tag, t, span, comments_before_type, comments_after_type } => N::new("tag", tagc(tag), Some(*span))
      .c(ty(t))
      .cm("comments_before_type", comments_before_type)
      .cm("comments_after_type", comments_after_type),
    Type2::DataMajorType { mt, constraint, span } => N::new("major", format!("{}{}", mt, tagc(constraint)), Some(*span)),
    Type2::Any { span } => N::new("anyhash", "", Some(*span)),
  }
}

pub fn group(g: &Group) -> N {
  let mut n = N::new("group", "", Some(g.span));
  for gc in &g.group_choices {
    let mut c = N::new("gchoice", "", Some(gc.span)).cm("comments_before_grpchoice", &gc.comments_before_grpchoice);
    for (e, oc) in &gc.group_entries {
      let mut en = entry(e);
      if let Some(x) = &oc.trailing_comments {
        if !x.0.is_empty() {
          en.comments.push(("optcomma.trailing_comments", x.0.iter().map(|s| s.to_string()).collect()));
        }
      }
      c.children.push(en);
    }
    n.children.push(c);
  }
  n
}

pub fn occur_label(o: &Occur) -> (String, Sp) {
  match o {
    Occur::Exact { lower, upper, span } => (
      format!("{}*{}", lower.map(|x| x.to_string()).unwrap_or_default(), upper.map(|x| x.to_string()).unwrap_or_default()),
      *span,
    ),
    Occur::ZeroOrMore { span } => ("*".into(), *span),
    Occur::OneOrMore { span } => ("+".into(), *span),
    Occur::Optional { span } => ("?".into(), *span),
  }
}

fn occ(o: &Option<Occurrence>) -> Option<N> {
  o.as_ref().map(|o| {
    let (l, sp) = occur_label(&o.occur);
    N::new("occur", l, Some(sp)).cm("comments", &o.comments)
  })
}

pub fn value_label(v: &Value) -> String {
  match v {
    Value::INT(i) => format!("int:{i}"),
    Value::UINT(u) => format!("uint:{u}"),
    Value::FLOAT(f) => format!("float:{}", float_label(*f)),
    Value::TEXT(t) => format!("text:{:?}", t),
    Value::BYTE(ByteValue::UTF8(b)) => format!("bytes_utf8:{}", hexs(b)),
    Value::BYTE(ByteValue::B16(b)) => format!("bytes_b16:{}", hexs(b)),
    Value::BYTE(ByteValue::B64(b)) => format!("bytes_b64:{}", hexs(b)),
  }
}

pub fn member_key(k: &MemberKey) -> N {
  match k {
    MemberKey::Type1 { t1, is_cut, span, comments_before_cut, comments_after_cut, comments_after_arrowmap } => {
      N::new("key_type1", if *is_cut { "^" } else { "" }, Some(*span))
        .c(type1(t1))
        .cm("comments_before_cut", comments_before_cut)
        .cm("comments_after_cut", comments_after_cut)
        .cm("comments_after_arrowmap", comments_after_arrowmap)
    }
    MemberKey::Bareword { ident: i, span, comments, comments_after_colon } => {
      N::new("key_bare", "", Some(*span)).c(ident(i)).cm("comments", comments).cm("comments_after_colon", comments_after_colon)
    }
    MemberKey::Value { value, span, comments, comments_after_colon } => {
      N::new("key_value", value_label(value), Some(*span)).cm("comments", comments).cm("comments_after_colon", comments_after_colon)
    }
    MemberKey::NonMemberKey { non_member_key, comments_before_type_or_group, comments_after_type_or_group } => {
      let c = match non_member_key {
        NonMemberKey::Group(g) => group(g),
        NonMemberKey::Type(t) => ty(t),
      };
      N::new("key_nonmember", "", None)
        .c(c)
        .cm("comments_before_type_or_group", comments_before_type_or_group)
        .cm("comments_after_type_or_group", comments_after_type_or_group)
    }
  }
}

pub fn entry(e: &GroupEntry) -> N {
  match e {
    GroupEntry::ValueMemberKey { ge, span, leading_comments, trailing_comments } => N::new("entry_val", "", Some(*span))
      .oc(occ(&ge.occur))
      .oc(ge.member_key.as_ref().map(member_key))
      .c(ty(&ge.entry_type))
      .cm("leading_comments", leading_comments)
      .cm("trailing_comments", trailing_comments),
    GroupEntry::TypeGroupname { ge, span, leading_comments, trailing_comments } => N::new("entry_name", "", Some(*span))
      .oc(occ(&ge.occur))
      .c(ident(&ge.name))
      .oc(ge.generic_args.as_ref().map(gargs))
      .cm("leading_comments", leading_comments)
      .cm("trailing_comments", trailing_comments),
    GroupEntry::InlineGroup { occur, group: g, span, comments_before_group, comments_after_group } => {
      N::new("entry_group", "", Some(*span))
        .oc(occ(occur))
        .c(group(g))
        .cm("comments_before_group", comments_before_group)
        .cm("comments_after_group", comments_after_group)
    }
  }
}
