//! C01 — JSON validation verdicts equal RFC 8610 semantics on the core language.
use crate::cborref::RV;
use crate::core::*;
use crate::docs::*;
use crate::refmodel::*;
use crate::space::*;
use crate::terms::*;
use crate::verdicts::*;
use serde_json::json;
use std::collections::BTreeMap;

/// reference verdict for a JSON document
pub fn ref_json(m: &Model, v: &RV) -> (Tri, &'static str) {
  // "A JSON integer and a JSON float that denote the same number are not distinguished
  // by this property": the document as written and every int/float re-reading of its
  // integral numbers (1 vs 1.0, up to 6 sites) must get the same verdict from R,
  // otherwise the state is DontCare - in both directions (correction of round 2: the
  // first version only looked at the other readings when the native reading was
  // rejected, which demanded the native reading where the property does not).
  let (native, why) = m.verdict_why(v);
  if native == Tri::DC {
    return (native, why);
  }
  let k = numeric_sites(v).min(6);
  for mask in 1..(1u32 << k) {
    let mut idx = 0;
    let rv = reading(v, mask, &mut idx);
    match m.verdict_why(&rv) {
      (Tri::DC, w) => return (Tri::DC, w),
      (x, _) if x != native => return (Tri::DC, "int/float reading"),
      _ => {}
    }
  }
  (native, "")
}

pub struct Case<'a> {
  pub schema: &'a Schema,
  pub text: &'a str,
  pub doc: &'a RV,
  pub expected: Tri,
  pub got: &'a Obs,
}

/// closed vocabulary of known-finding patterns for C01 (see known_findings.jsonl)
pub fn classify(c: &Case) -> Option<String> {
  crate::patterns::classify_json(c)
}

pub fn check_one(text: &str, schema: &Schema, doc: &RV) -> Option<Viol> {
  let m = Model::new(schema);
  let (exp, _) = ref_json(&m, doc);
  let got = json_str(text, &to_json_text(doc));
  judge(text, schema, doc, exp, &got)
}

pub fn judge(text: &str, schema: &Schema, doc: &RV, exp: Tri, got: &Obs) -> Option<Viol> {
  let bad = match (exp, got) {
    (_, Obs::Panic(_)) => true,
    (Tri::DC, _) => false,
    (_, Obs::Other(_)) => true,
    (Tri::Acc, Obs::Ok) | (Tri::Rej, Obs::Invalid) => false,
    _ => true,
  };
  if !bad {
    return None;
  }
  let c = Case { schema, text, doc, expected: exp, got };
  Some(Viol {
    kind: "json-verdict".into(),
    case: json!({"schema": text, "json": to_json_text(doc)}),
    observed: got.short(),
    expected: format!("{:?}", exp),
    finding: classify(&c),
  })
}

#[derive(Default)]
pub struct Acc {
  pub v: VAcc,
  pub schemas: u64,
  pub pairs: u64,
  pub judged: u64,
  pub dc: u64,
  pub nontrivial_schemas: u64,
  pub nontrivial_pairs: u64,
  pub obs: BTreeMap<String, u64>,
  pub dc_why: BTreeMap<&'static str, u64>,
  pub parse_fail: Vec<String>,
  pub samples: Vec<serde_json::Value>,
}

pub fn sweep_json(run: &mut Run, tys: &[Ty], lib: &[RuleT], docs: &[RV], sdocs: &[serde_json::Value], label: &str) {
  let accs = par_sweep(tys.len(), 16, Acc::default, |i, a: &mut Acc| {
    let schema = assemble(tys[i].clone(), lib);
    let text = schema.render();
    a.schemas += 1;
    let obs = match json_many(&text, sdocs) {
      Ok(o) => o,
      Err(e) => {
        if a.parse_fail.len() < 5 {
          a.parse_fail.push(format!("{text} => {e}"));
        }
        a.v.push(Viol {
          kind: "json-verdict".into(),
          case: json!({"schema": text, "json": "null", "term": format!("{:?}", schema)}),
          observed: format!("generated schema does not parse: {e}"),
          expected: "parses".into(),
          finding: None,
        });
        return;
      }
    };
    let m = Model::new(&schema);
    let mut acc = 0;
    let mut rej = 0;
    for (d, o) in docs.iter().zip(&obs) {
      a.pairs += 1;
      let (exp, why) = ref_json(&m, d);
      if exp == Tri::DC {
        a.dc += 1;
        *a.dc_why.entry(why).or_insert(0) += 1;
      } else {
        a.judged += 1;
      }
      match o {
        Obs::Ok => acc += 1,
        Obs::Invalid => rej += 1,
        _ => {}
      }
      *a.obs.entry(format!("R={:?} impl={}", exp, match o { Obs::Ok => "Ok", Obs::Invalid => "Invalid", Obs::Other(_) => "OtherErr", Obs::Panic(_) => "Panic" })).or_insert(0) += 1;
      if let Some(v) = judge(&text, &schema, d, exp, o) {
        a.v.push(v);
      }
    }
    if acc > 0 && rej > 0 {
      a.nontrivial_schemas += 1;
      a.nontrivial_pairs += docs.len() as u64;
    }
    // the string entry point named in the property must agree with the bulk route
    let k = i % docs.len();
    let o2 = json_str(&text, &to_json_text(&docs[k]));
    if o2 != obs[k] {
      a.v.push(Viol {
        kind: "json-route".into(),
        case: json!({"schema": text, "json": to_json_text(&docs[k])}),
        observed: o2.short(),
        expected: format!("same as JSONValidator::new route: {}", obs[k].short()),
        finding: None,
      });
    }
    if a.samples.len() < 2 && i % 997 == 3 {
      a.samples.push(json!({"schema": text, "json": to_json_text(&docs[k]), "reference": format!("{:?}", ref_json(&m, &docs[k]).0), "impl": obs[k].short()}));
    }
  });
  let mut obs: BTreeMap<String, u64> = BTreeMap::new();
  let mut why: BTreeMap<&'static str, u64> = BTreeMap::new();
  for a in accs {
    run.absorb(a.v);
    run.states += a.pairs;
    run.traces += a.pairs;
    run.nontrivial += a.nontrivial_pairs;
    run.add("schemas", a.schemas);
    run.add("judged", a.judged);
    run.add("dont_care", a.dc);
    run.add("nontrivial_schemas", a.nontrivial_schemas);
    for (k, v) in a.obs {
      *obs.entry(k).or_insert(0) += v;
    }
    for (k, v) in a.dc_why {
      *why.entry(k).or_insert(0) += v;
    }
    for s in a.samples {
      run.sample(s);
    }
  }
  let mut o0: BTreeMap<String, u64> =
    run.extra.get("distinct_observations").and_then(|x| serde_json::from_value(x.clone()).ok()).unwrap_or_default();
  for (k, v) in obs {
    *o0.entry(k).or_insert(0) += v;
  }
  run.set("distinct_observations", json!(o0));
  let mut w0: BTreeMap<String, u64> = run.extra.get("dont_care_reasons").and_then(|x| serde_json::from_value(x.clone()).ok()).unwrap_or_default();
  for (k, v) in why {
    *w0.entry(k.to_string()).or_insert(0) += v;
  }
  run.set("dont_care_reasons", json!(w0));
  run.set(&format!("schemas_{label}"), json!(tys.len()));
}

pub fn run(tier: Tier) -> i32 {
  quiet_panics();
  let mut run = Run::new("C01", tier, "model_checking");
  let cfg = core_cfg();
  // quick: weight 4; thorough: weight 4 over the larger document universe, then weight 5 over the quick universe
  let w = std::env::var("VERIF_W").ok().and_then(|s| s.parse().ok()).unwrap_or(4usize);
  let en = Enum::new(&cfg, w.max(tier.pick(4, 5)));
  let docs = json_universe(tier);
  let sdocs: Vec<serde_json::Value> = docs.iter().map(rv_to_serde).collect();
  let lib = helper_rules();
  for k in 1..=w {
    let tys = en.types(k);
    sweep_json(&mut run, tys, &lib, &docs, &sdocs, &format!("weight_{k}"));
    run.transitions += tys.len() as u64 * docs.len() as u64;
  }
  if tier == Tier::Thorough && w < 5 {
    let qdocs = json_universe(Tier::Quick);
    let qsdocs: Vec<serde_json::Value> = qdocs.iter().map(rv_to_serde).collect();
    let tys = en.types(5);
    sweep_json(&mut run, tys, &lib, &qdocs, &qsdocs, "weight_5");
    run.transitions += tys.len() as u64 * qdocs.len() as u64;
    run.set("weight_5_documents", json!(qdocs.len()));
  }
  // map family: every map of 1..3 members (and two alternatives) over a member alphabet that
  // weight-bounded enumeration reaches only at weight 6-9 (two or three keyed members)
  {
    let fam = map_family(tier);
    let mdocs = map_family_docs(tier);
    let msdocs: Vec<serde_json::Value> = mdocs.iter().map(rv_to_serde).collect();
    sweep_json(&mut run, &fam, &lib, &mdocs, &msdocs, "map_family");
    run.transitions += fam.len() as u64 * mdocs.len() as u64;
    run.set("map_family", json!({"schemas": fam.len(), "documents": mdocs.len()}));
  }
  run.evaluations = run.states;
  run.rule = format!(
    "state = (schema, JSON document). Schemas: every type term of weight <= {w} (weight = constructor nodes) over the core alphabet \
     (prelude scalars, int/float/text literals, int and float ranges, .size/.eq/.ne/.lt/.le/.gt/.ge, type choices <=3, arrays and maps \
     nested to depth 2 with <=3 entries and <=2 group choices, occurrences ? * + 1*2 2*2 *1 2*, member keys a: b: \"a\"=> tstr=> \"a\"^=>, \
     inline groups, references to type rules (alias, choice, recursive) and group rules (sequence, keyed, optional, group choice)), as root \
     rule `r`. Documents: the {}-value JSON universe (scalars, arrays <=3(4), objects <=3 members over keys a,b,c, nesting 2). Every state \
     is evaluated by the reference matcher R (RFC 8610 + documented PEG array reading; 2^k int/float readings of integral numbers must agree, \
     else don't-care) and replayed on the real JSONValidator (parse once per schema; one state per schema also through validate_json_from_str). \
     transition = one constructor application / one (schema,doc) pairing. non-trivial = states whose schema both accepts and rejects some document.",
    docs.len()
  );
  run.set("documents", json!(docs.len()));
  run.set("max_weight", json!(w));
  run.assumptions = vec![
    "R encodes my reading of RFC 8610 sections 2-3 and Appendix D; constructs whose meaning is open are DontCare (counted, never judged)".into(),
    "map matching in R is brute force over all assignments of pairs to members with cut semantics of RFC 8610 3.5.4".into(),
  ];
  run.finish()
}

pub fn replay(case: &serde_json::Value) -> Option<Viol> {
  // replays are judged on the text-level observation; the term is re-derived by
  // searching the same space for the schema text (cheap: render and compare)
  let text = case["schema"].as_str()?.to_string();
  let jtxt = case["json"].as_str()?.to_string();
  let cfg = core_cfg();
  let en = Enum::new(&cfg, 5);
  let lib = helper_rules();
  let docs = json_universe(Tier::Thorough);
  let doc = docs.iter().find(|d| to_json_text(d) == jtxt)?;
  for k in 1..=5 {
    for ty in en.types(k) {
      let s = assemble(ty.clone(), &lib);
      if s.render() == text {
        return check_one(&text, &s, doc);
      }
    }
  }
  None
}


pub fn map_members() -> Vec<Entry> {
  let kv = |occ: Occ, k: Key, t: T2| Entry { occ, kind: EK::Val(Some(k), ty1(t)) };
  let bare = |s: &str| Key::Bare(s.into());
  let arrow = |t: T2, cut: bool| Key::Arrow(t1(t), cut);
  vec![
    kv(Occ::One, bare("a"), name("int")),
    kv(Occ::Opt, bare("a"), name("int")),
    kv(Occ::One, bare("b"), name("tstr")),
    kv(Occ::Opt, bare("b"), name("tstr")),
    kv(Occ::Opt, bare("c"), name("any")),
    kv(Occ::One, bare("c"), name("int")),
    kv(Occ::One, arrow(text("a"), false), int(1)),
    kv(Occ::Opt, arrow(text("a"), true), name("int")),
    kv(Occ::Star, arrow(name("tstr"), false), name("int")),
    kv(Occ::Star, arrow(name("tstr"), false), name("any")),
    kv(Occ::Plus, arrow(name("tstr"), false), name("tstr")),
    kv(Occ::Range(None, Some(1)), arrow(name("tstr"), false), name("int")),
    Entry { occ: Occ::One, kind: EK::Ref("gk".into(), vec![]) },
    Entry { occ: Occ::One, kind: EK::Ref("go".into(), vec![]) },
  ]
}

pub fn map_family(tier: Tier) -> Vec<Ty> {
  let ms = map_members();
  let mut out = vec![];
  for a in &ms {
    for b in &ms {
      out.push(ty1(T2::Map(Grp(vec![vec![a.clone(), b.clone()]]))));
      out.push(ty1(T2::Map(Grp(vec![vec![a.clone()], vec![b.clone()]]))));
      for c in &ms {
        out.push(ty1(T2::Map(Grp(vec![vec![a.clone(), b.clone(), c.clone()]]))));
        if tier == Tier::Thorough {
          out.push(ty1(T2::Map(Grp(vec![vec![a.clone(), b.clone()], vec![c.clone()]]))));
          out.push(ty1(T2::Map(Grp(vec![vec![a.clone()], vec![b.clone(), c.clone()]]))));
        }
      }
    }
  }
  out
}

pub fn map_family_docs(tier: Tier) -> Vec<RV> {
  let vals: Vec<RV> = tier.pick(vec![i(1), t("x")], vec![i(1), t("x"), NULL, i(2)]);
  let n = vals.len() + 1;
  let mut out = vec![];
  for x in 0..n {
    for y in 0..n {
      for z in 0..n {
        for w in 0..tier.pick(2, n) {
          let mut es = vec![];
          for (k, idx) in [("a", x), ("b", y), ("c", z), ("d", w)] {
            if idx > 0 {
              es.push((t(k), vals[idx - 1].clone()));
            }
          }
          out.push(RV::Map(es));
        }
      }
    }
  }
  out
}
