//! Closed, reviewed vocabulary of known-finding patterns for the verdict properties.
//! A pattern is *semantic*, not textual: a violating state is attributed to a finding
//! only if (a) observed/expected have the recorded direction, (b) the generator's term
//! contains the defective construct, and (c) a rewrite of the term that mimics exactly
//! the recorded wrong behaviour explains the observed verdict (checked with the
//! reference matcher R, or by re-running the implementation on the rewritten schema).
//! Anything else stays an unattributed VIOLATION. Ids must be listed with status
//! "open" in /verif/known_findings.jsonl to suppress anything.
use crate::c01::{ref_json, Case};
use crate::refmodel::*;
use crate::terms::*;
use crate::verdicts::*;

pub const F_CHOICE: &str = "C01-map-group-choice-commits-to-nullable-alternative";
pub const F_MIN2: &str = "C01-map-single-key-member-min-occurrence-above-one-accepted";
pub const F_GREEDY: &str = "C01-map-type-keyed-member-greedily-takes-key-of-later-member";
pub const F_OCCGROUP: &str = "C01-map-occurrence-on-a-group-is-not-enforced";
pub const F_MIXED: &str = "C01-json-integer-read-as-float-only-where-it-helps";
pub const F_OPTGROUP: &str = "C01-map-optional-group-whose-value-fails-is-an-error";

fn grule<'a>(s: &'a Schema, n: &str) -> Option<&'a Entry> {
  s.0.iter().find_map(|r| match &r.body {
    Body::Group(e) if r.name == n && r.params.is_empty() => Some(e),
    _ => None,
  })
}

fn occ_nullable(o: &Occ) -> bool {
  matches!(o, Occ::Opt | Occ::Star | Occ::Range(None, _) | Occ::Range(Some(0), _))
}
fn entry_nullable(s: &Schema, e: &Entry, d: usize) -> bool {
  if occ_nullable(&e.occ) {
    return true;
  }
  if d > 8 {
    return false;
  }
  match &e.kind {
    EK::Val(..) => false,
    EK::Inline(g) => g.0.iter().any(|c| choice_nullable(s, c, d + 1)),
    EK::Ref(n, _) => grule(s, n).is_some_and(|e| entry_nullable(s, e, d + 1)),
  }
}
fn choice_nullable(s: &Schema, c: &[Entry], d: usize) -> bool {
  c.iter().all(|e| entry_nullable(s, e, d))
}

/// the entry can consume at most one member of any map: every key it offers is a
/// single value (bareword / literal key), directly or through group references
fn single_keyed(s: &Schema, e: &Entry, d: usize) -> bool {
  if d > 8 {
    return false;
  }
  match &e.kind {
    EK::Val(Some(Key::Bare(_)), _) | EK::Val(Some(Key::LitColon(_)), _) => true,
    EK::Val(Some(Key::Arrow(k, _)), _) => k.op.is_none() && matches!(k.t2, T2::Lit(_)),
    EK::Val(None, _) => false,
    EK::Inline(g) => g.0.len() == 1 && g.0[0].len() == 1 && single_keyed(s, &g.0[0][0], d + 1),
    EK::Ref(n, a) => a.is_empty() && grule(s, n).is_some_and(|e| single_keyed(s, e, d + 1)),
  }
}

/// generic bottom-up rewriting of the groups that sit (directly or through inline
/// groups) inside map types; `f` gets each such group and reports whether it changed it
fn rw_ty(t: &mut Ty, in_map: bool, f: &mut dyn FnMut(&mut Grp) -> bool) -> bool {
  let mut ch = false;
  for t1 in t.0.iter_mut() {
    ch |= rw_t2(&mut t1.t2, in_map, f);
  }
  ch
}
fn rw_t2(t: &mut T2, _in_map: bool, f: &mut dyn FnMut(&mut Grp) -> bool) -> bool {
  match t {
    T2::Paren(t) | T2::Tag(_, t) => rw_ty(t, false, f),
    T2::Map(g) => rw_grp(g, true, f),
    T2::Arr(g) => rw_grp(g, false, f),
    _ => false,
  }
}
fn rw_grp(g: &mut Grp, in_map: bool, f: &mut dyn FnMut(&mut Grp) -> bool) -> bool {
  let mut ch = false;
  for c in g.0.iter_mut() {
    for e in c.iter_mut() {
      match &mut e.kind {
        EK::Val(_, t) => ch |= rw_ty(t, false, f),
        EK::Inline(g2) => ch |= rw_grp(g2, in_map, f),
        EK::Ref(..) => {}
      }
    }
  }
  if in_map {
    ch |= f(g);
  }
  ch
}
fn rewrite(s: &Schema, f: &mut dyn FnMut(&mut Grp) -> bool) -> Option<Schema> {
  let mut s2 = s.clone();
  let mut ch = false;
  for r in s2.0.iter_mut() {
    if let Body::Type(t) = &mut r.body {
      ch |= rw_ty(t, false, f);
    }
  }
  if ch {
    Some(s2)
  } else {
    None
  }
}

/// a map group of the schema (directly or nested) satisfying `p`
fn any_map_group(s: &Schema, p: &dyn Fn(&Grp) -> bool) -> bool {
  let mut found = false;
  let _ = rewrite(s, &mut |g: &mut Grp| {
    if p(g) {
      found = true;
    }
    false
  });
  found
}
/// type-keyed directly or as the only content of an inline group
fn type_keyed_deep(e: &Entry) -> bool {
  type_keyed(e) || matches!(&e.kind, EK::Inline(g) if g.0.iter().any(|alt| alt.iter().any(type_keyed_deep)))
}
fn type_keyed(e: &Entry) -> bool {
  matches!(&e.kind, EK::Val(Some(Key::Arrow(k, _)), _) if !(k.op.is_none() && matches!(k.t2, T2::Lit(_))))
}

/// F_MIN2 for the CBOR validator (C02): lowering every unsatisfiable lower bound (>= 2 on a
/// single-keyed member) to 1 makes R stop rejecting the item
pub fn explains_min2(s: &Schema, doc: &crate::cborref::RV) -> bool {
  if let Some(s2) = rewrite(s, &mut |g: &mut Grp| {
    let mut ch = false;
    for c in g.0.iter_mut() {
      for e in c.iter_mut() {
        if let Occ::Range(Some(n), hi) = e.occ.clone() {
          if n >= 2 && single_keyed(s, e, 0) {
            e.occ = Occ::Range(Some(1), hi);
            ch = true;
          }
        }
      }
    }
    ch
  }) {
    return Model::new(&s2).verdict(doc) != Tri::Rej;
  }
  false
}

pub fn classify_json(c: &Case) -> Option<String> {
  if let Some(f) = classify_semantic(c) {
    return Some(f);
  }
  // Second route: structural candidate AND the state is on the committed state list of the
  // finding (known/<id>.states). Used for the instances of the recorded defects whose
  // wrong behaviour the rewrites above cannot mimic (repeating type-keyed members, several
  // type-keyed members, a first alternative that matches but leaves keys over).
  if (c.expected, c.got) == (Tri::Acc, &Obs::Invalid) {
    let k = crate::core::statelist::key(&[c.text, &crate::docs::to_json_text(c.doc)]);
    if any_map_group(c.schema, &|g: &Grp| g.0.iter().any(|alt| alt.len() >= 2 && alt.iter().any(type_keyed_deep)))
      && crate::core::statelist::listed(F_GREEDY, k)
    {
      return Some(F_GREEDY.into());
    }
    if any_map_group(c.schema, &|g: &Grp| g.0.len() >= 2) && crate::core::statelist::listed(F_CHOICE, k) {
      return Some(F_CHOICE.into());
    }
    // an optional / repeated group (inline or by reference) before another member: when the group's key is present
    // but its value does not match, the group should simply not apply; the validator reports the mismatch instead
    if any_map_group(c.schema, &|g: &Grp| g.0.iter().any(|alt| alt.iter().any(|e| matches!(e.kind, EK::Inline(_) | EK::Ref(..)) && occ_nullable(&e.occ))))
      && crate::core::statelist::listed(F_OPTGROUP, k)
    {
      return Some(F_OPTGROUP.into());
    }
  }
  if (c.expected, c.got) == (Tri::Rej, &Obs::Ok) {
    // an occurrence indicator on a group entry of a map (inline group or group reference) is not enforced: '*1 (tstr => any)'
    // takes two members, '1*2 gk, tstr => any' lets the table reuse gk's key
    let k = crate::core::statelist::key(&[c.text, &crate::docs::to_json_text(c.doc)]);
    if any_map_group(c.schema, &|g: &Grp| g.0.iter().any(|alt| alt.iter().any(|e| matches!(e.kind, EK::Inline(_) | EK::Ref(..)) && e.occ != Occ::One)))
      && crate::core::statelist::listed(F_OCCGROUP, k)
    {
      return Some(F_OCCGROUP.into());
    }
    // a JSON integer is not a float for 'float' (an optional float entry is skipped) and at the same time inside a float
    // range for the next entry: neither reading of the number makes the array match
    if c.text.contains("..") && c.text.contains('.') && crate::core::statelist::listed(F_MIXED, k) {
      return Some(F_MIXED.into());
    }
  }
  None
}

fn classify_semantic(c: &Case) -> Option<String> {
  let s = c.schema;
  match (c.expected, c.got) {
    (Tri::Acc, Obs::Invalid) => {
      // F_CHOICE: the validator commits to the first alternative of a map's group choice
      // that raises no error - before the closed-map check - so alternatives after one
      // that can match the empty map are never tried. Mimic: drop them; R must then reject.
      if let Some(s2) = rewrite(s, &mut |g: &mut Grp| {
        if g.0.len() >= 2 {
          if let Some(i) = (0..g.0.len() - 1).find(|&i| choice_nullable(s, &g.0[i], 0)) {
            g.0.truncate(i + 1);
            return true;
          }
        }
        false
      }) {
        if ref_json(&Model::new(&s2), c.doc).0 == Tri::Rej {
          return Some(F_CHOICE.into());
        }
      }
      // F_GREEDY: a member whose key is a type (`tstr => T`, no occurrence or `?`) takes
      // the first not-yet-consumed key of the object, also when a later member of the
      // same group names that key. Mimic: the defect disappears when every such member is
      // moved behind the members with specific keys; the implementation itself must then
      // accept the document.
      if let Some(s2) = rewrite(s, &mut |g: &mut Grp| {
        let mut ch = false;
        for ch_ in g.0.iter_mut() {
          let wild = |e: &Entry| {
            matches!(e.occ, Occ::One | Occ::Opt)
              && matches!(&e.kind, EK::Val(Some(Key::Arrow(k, _)), _) if !(k.op.is_none() && matches!(k.t2, T2::Lit(_))))
          };
          if let Some(i) = ch_.iter().position(|e| wild(e)) {
            if ch_[i + 1..].iter().any(|e| !wild(e)) {
              let (w, mut rest): (Vec<Entry>, Vec<Entry>) = ch_.drain(..).partition(|e| wild(e));
              rest.extend(w);
              *ch_ = rest;
              ch = true;
            }
          }
        }
        ch
      }) {
        if json_str(&s2.render(), &crate::docs::to_json_text(c.doc)) == Obs::Ok {
          return Some(F_GREEDY.into());
        }
      }
      None
    }
    (Tri::Rej, Obs::Ok) => {
      // F_MIN2: a member that can occur at most once in any map (single-valued key) with a
      // lower occurrence bound >= 2 is unsatisfiable, but the validator is content with one
      // occurrence. Mimic: lower the bound to 1; R must then no longer reject (accept, or
      // don't-care where the rest of the group is outside the judged fragment, e.g. the
      // keyless group in `{2* gk, gs}` - R only rejected because of the unsatisfiable bound).
      if let Some(s2) = rewrite(s, &mut |g: &mut Grp| {
        let mut ch = false;
        for c in g.0.iter_mut() {
          for e in c.iter_mut() {
            if let Occ::Range(Some(n), hi) = e.occ.clone() {
              if n >= 2 && single_keyed(s, e, 0) {
                e.occ = Occ::Range(Some(1), hi);
                ch = true;
              }
            }
          }
        }
        ch
      }) {
        if ref_json(&Model::new(&s2), c.doc).0 != Tri::Rej {
          return Some(F_MIN2.into());
        }
      }
      None
    }
    _ => None,
  }
}
