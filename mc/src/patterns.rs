//! Closed, reviewed vocabulary of known-finding patterns for the verdict properties.
//! A pattern is a structural predicate over the generator's term, the document and
//! the direction of the wrong behaviour. Ids must be listed (status open) in
//! /verif/known_findings.jsonl to suppress anything.
use crate::c01::Case;

pub fn classify_json(_c: &Case) -> Option<String> {
  None
}
