//! C08 — naming, generics, sockets and parentheses are semantically transparent.
//! Relational: (schema, refactoring instance, document). Every applicable instance of each
//! refactoring family is applied to every base schema; both real validators must give the
//! refactored schema the verdict of the original on every document.
use crate::cborref::RV;
use crate::core::*;
use crate::docs::*;
use crate::space::*;
use crate::terms::*;
use crate::verdicts::*;
use serde_json::json;
use std::collections::BTreeMap;

// ------------------------------------------------------------------ sub-term addressing

/// visit every Ty nested in `t` (pre-order); `f` may rewrite it. Returns number visited.
fn for_each_ty(t: &mut Ty, f: &mut dyn FnMut(&mut Ty)) {
  f(t);
  for t1 in t.0.iter_mut() {
    t2_tys(&mut t1.t2, f);
  }
}
fn t2_tys(t: &mut T2, f: &mut dyn FnMut(&mut Ty)) {
  match t {
    T2::Paren(x) | T2::Tag(_, x) => for_each_ty(x, f),
    T2::Map(g) | T2::Arr(g) | T2::EnumInline(g) => grp_tys(g, f),
    _ => {}
  }
}
fn grp_tys(g: &mut Grp, f: &mut dyn FnMut(&mut Ty)) {
  for c in g.0.iter_mut() {
    for e in c.iter_mut() {
      match &mut e.kind {
        EK::Val(_, t) => for_each_ty(t, f),
        EK::Inline(g2) => grp_tys(g2, f),
        EK::Ref(..) => {}
      }
    }
  }
}
/// visit every entry (pre-order)
fn for_each_entry(t: &mut Ty, f: &mut dyn FnMut(&mut Entry)) {
  fn g_(g: &mut Grp, f: &mut dyn FnMut(&mut Entry)) {
    for c in g.0.iter_mut() {
      for e in c.iter_mut() {
        f(e);
        match &mut e.kind {
          EK::Val(_, t) => t_(t, f),
          EK::Inline(g2) => g_(g2, f),
          EK::Ref(..) => {}
        }
      }
    }
  }
  fn t_(t: &mut Ty, f: &mut dyn FnMut(&mut Entry)) {
    for t1 in t.0.iter_mut() {
      match &mut t1.t2 {
        T2::Paren(x) | T2::Tag(_, x) => t_(x, f),
        T2::Map(g) | T2::Arr(g) | T2::EnumInline(g) => g_(g, f),
        _ => {}
      }
    }
  }
  t_(t, f)
}

fn root_ty(s: &Schema) -> Ty {
  match &s.0[0].body {
    Body::Type(t) => t.clone(),
    _ => unreachable!(),
  }
}
fn with_root(s: &Schema, t: Ty, extra: Vec<RuleT>) -> Schema {
  let mut rules = s.0.clone();
  rules[0].body = Body::Type(t);
  rules.extend(extra);
  Schema(rules)
}

// ------------------------------------------------------------------ substitution

fn sub_t2(t: &T2, env: &[(String, T1)]) -> T2 {
  match t {
    T2::Name(n, a) if a.is_empty() => match env.iter().find(|(p, _)| p == n) {
      Some((_, x)) if x.op.is_none() => x.t2.clone(),
      Some((_, x)) => T2::Paren(Ty(vec![x.clone()])),
      None => t.clone(),
    },
    T2::Name(n, a) => T2::Name(n.clone(), a.iter().map(|x| sub_t1(x, env)).collect()),
    T2::Paren(x) => T2::Paren(sub_ty(x, env)),
    T2::Map(g) => T2::Map(sub_grp(g, env)),
    T2::Arr(g) => T2::Arr(sub_grp(g, env)),
    T2::Tag(n, x) => T2::Tag(n.clone(), sub_ty(x, env)),
    _ => t.clone(),
  }
}
fn sub_t1(t: &T1, env: &[(String, T1)]) -> T1 {
  T1 { t2: sub_t2(&t.t2, env), op: t.op.as_ref().map(|(o, a)| (o.clone(), sub_t2(a, env))) }
}
fn sub_ty(t: &Ty, env: &[(String, T1)]) -> Ty {
  Ty(t.0.iter().map(|x| sub_t1(x, env)).collect())
}
fn sub_entry(e: &Entry, env: &[(String, T1)]) -> Entry {
  Entry {
    occ: e.occ.clone(),
    kind: match &e.kind {
      EK::Val(k, t) => EK::Val(
        k.as_ref().map(|k| match k {
          Key::Arrow(kt, c) => Key::Arrow(sub_t1(kt, env), *c),
          other => other.clone(),
        }),
        sub_ty(t, env),
      ),
      EK::Ref(n, a) if a.is_empty() => match env.iter().find(|(p, _)| p == n) {
        // a parameter used as an array element / group entry stands for the argument type
        Some((_, x)) => EK::Val(None, Ty(vec![x.clone()])),
        None => e.kind.clone(),
      },
      EK::Ref(n, a) => EK::Ref(n.clone(), a.iter().map(|x| sub_t1(x, env)).collect()),
      EK::Inline(g) => EK::Inline(sub_grp(g, env)),
    },
  }
}
fn sub_grp(g: &Grp, env: &[(String, T1)]) -> Grp {
  Grp(g.0.iter().map(|c| c.iter().map(|e| sub_entry(e, env)).collect()).collect())
}

// ------------------------------------------------------------------ refactorings

/// all refactoring instances of `s` (label, refactored schema)
pub fn refactorings(s: &Schema) -> Vec<(String, Schema)> {
  let mut out: Vec<(String, Schema)> = vec![];
  let root = root_ty(s);
  // (1) extract the k-th nested type into a fresh rule
  let mut n_ty = 0;
  for_each_ty(&mut root.clone(), &mut |_| n_ty += 1);
  for k in 0..n_ty {
    let mut r = root.clone();
    let mut i = 0;
    let mut extracted: Option<Ty> = None;
    for_each_ty(&mut r, &mut |t| {
      if i == k && extracted.is_none() {
        extracted = Some(t.clone());
        *t = ty1(name("fresh-x"));
      }
      i += 1;
    });
    if let Some(e) = extracted {
      // extracting a reference to a single name is a plain alias, still a valid instance
      out.push((format!("extract-type#{k}"), with_root(s, r, vec![type_rule("fresh-x", e)])));
    }
  }
  // (2) redundant parentheses around the k-th nested type
  for k in 0..n_ty {
    let mut r = root.clone();
    let mut i = 0;
    let mut done = false;
    for_each_ty(&mut r, &mut |t| {
      if i == k && !done {
        let inner = t.clone();
        *t = ty1(T2::Paren(inner));
        done = true;
      }
      i += 1;
    });
    out.push((format!("parenthesise#{k}"), with_root(s, r, vec![])));
  }
  // (3) extract the k-th inline group into a fresh group rule / (4) inline a group reference
  let mut n_e = 0;
  for_each_entry(&mut root.clone(), &mut |_| n_e += 1);
  for k in 0..n_e {
    let mut r = root.clone();
    let mut i = 0;
    let mut extra: Option<RuleT> = None;
    for_each_entry(&mut r, &mut |e| {
      if i == k && extra.is_none() {
        if let EK::Inline(g) = &e.kind {
          // `fresh-g = (x)` with a single bare name inside is read as a parenthesised TYPE by the
          // grammar (rule = typename "=" type comes first): not a group extraction, skip it
          fn reads_as_type(g: &Grp) -> bool {
            g.0.len() == 1
              && g.0[0].len() == 1
              && g.0[0][0].occ == Occ::One
              && match &g.0[0][0].kind {
                EK::Ref(..) | EK::Val(None, _) => true,
                EK::Inline(g2) => reads_as_type(g2),
                _ => false,
              }
          }
          let ambiguous = reads_as_type(g);
          if ambiguous {
            i += 1;
            return;
          }
          extra = Some(group_rule("fresh-g", Entry { occ: Occ::One, kind: EK::Inline(g.clone()) }));
          e.kind = EK::Ref("fresh-g".into(), vec![]);
        }
      }
      i += 1;
    });
    if let Some(x) = extra {
      out.push((format!("extract-group#{k}"), with_root(s, r, vec![x])));
    }
    let mut r = root.clone();
    let mut i = 0;
    let mut changed = false;
    for_each_entry(&mut r, &mut |e| {
      if i == k && !changed {
        if let EK::Ref(n, a) = &e.kind {
          if a.is_empty() {
            if let Some(def) = s.0.iter().find(|x| &x.name == n && x.params.is_empty() && x.assign == Assign::Eq) {
              if let Body::Group(ge) = &def.body {
                // a reference stands for its parenthesised definition
                e.kind = EK::Inline(Grp(vec![vec![ge.clone()]]));
                changed = true;
              }
            }
          }
        }
      }
      i += 1;
    });
    if changed {
      out.push((format!("inline-group#{k}"), with_root(s, r, vec![])));
    }
  }
  // (4b) hand-substitute the k-th generic group reference / generic type reference
  for k in 0..n_e {
    let mut r = root.clone();
    let mut i = 0;
    let mut changed = false;
    for_each_entry(&mut r, &mut |e| {
      if i == k && !changed {
        if let EK::Ref(n, a) = &e.kind {
          if !a.is_empty() {
            if let Some(def) = s.0.iter().find(|x| &x.name == n && x.params.len() == a.len()) {
              let env: Vec<(String, T1)> = def.params.iter().cloned().zip(a.iter().cloned()).collect();
              if let Body::Group(ge) = &def.body {
                e.kind = EK::Inline(Grp(vec![vec![sub_entry(ge, &env)]]));
                changed = true;
              }
            }
          }
        }
      }
      i += 1;
    });
    if changed {
      out.push((format!("substitute-generic-group#{k}"), with_root(s, r, vec![])));
    }
  }
  for k in 0..n_ty {
    let mut r = root.clone();
    let mut i = 0;
    let mut changed = false;
    for_each_ty(&mut r, &mut |t| {
      if i == k && !changed {
        for t1 in t.0.iter_mut() {
          if t1.op.is_none() {
            if let T2::Name(n, a) = &t1.t2 {
              if !a.is_empty() {
                if let Some(def) = s.0.iter().find(|x| &x.name == n && x.params.len() == a.len()) {
                  let env: Vec<(String, T1)> = def.params.iter().cloned().zip(a.iter().cloned()).collect();
                  if let Body::Type(dt) = &def.body {
                    t1.t2 = T2::Paren(sub_ty(dt, &env));
                    changed = true;
                    break;
                  }
                }
              }
            }
          }
        }
      }
      i += 1;
    });
    if changed {
      out.push((format!("substitute-generic-type#{k}"), with_root(s, r, vec![])));
    }
  }
  // (5) inline the k-th reference to a non-recursive type rule
  for k in 0..n_ty {
    let mut r = root.clone();
    let mut i = 0;
    let mut changed = false;
    for_each_ty(&mut r, &mut |t| {
      if i == k && !changed {
        for t1 in t.0.iter_mut() {
          if t1.op.is_none() {
            if let T2::Name(n, a) = &t1.t2 {
              if a.is_empty() && n != "rec" {
                if let Some(def) = s.0.iter().find(|x| &x.name == n && x.params.is_empty()) {
                  if let Body::Type(dt) = &def.body {
                    t1.t2 = T2::Paren(dt.clone());
                    changed = true;
                    break;
                  }
                }
              }
            }
          }
        }
      }
      i += 1;
    });
    if changed {
      out.push((format!("inline-type#{k}"), with_root(s, r, vec![])));
    }
  }
  // (6) the root choice spelled as base rule + "/=" increments, and through a socket
  if root.0.len() >= 2 {
    let mut rules = s.0.clone();
    rules[0].body = Body::Type(Ty(vec![root.0[0].clone()]));
    let mut rest = vec![];
    for alt in &root.0[1..] {
      rest.push(RuleT { name: "r".into(), params: vec![], assign: Assign::TAlt, body: Body::Type(Ty(vec![alt.clone()])) });
    }
    // increments directly after the base rule, and at the end of the document
    let mut a = vec![rules[0].clone()];
    a.extend(rest.clone());
    a.extend(rules[1..].iter().cloned());
    out.push(("choice-as-increments".into(), Schema(a)));
    let mut b = rules.clone();
    b.extend(rest);
    out.push(("choice-as-increments-at-end".into(), Schema(b)));
    let mut c = vec![type_rule("r", ty1(name("$sock")))];
    for alt in &root.0 {
      c.push(RuleT { name: "$sock".into(), params: vec![], assign: Assign::TAlt, body: Body::Type(Ty(vec![alt.clone()])) });
    }
    c.extend(s.0[1..].iter().cloned());
    out.push(("choice-through-socket".into(), Schema(c)));
  }
  // (6c) a helper rule's choice spelled as base rule + "/=" increments (the name may be the target of a control
  // operator, a table key, an array element: every place that asks "what kind of type is this name?")
  for (k, h) in s.0.iter().enumerate().skip(1) {
    if let (Body::Type(Ty(alts)), true, Assign::Eq) = (&h.body, h.params.is_empty(), &h.assign) {
      if alts.len() >= 2 && s.0.iter().filter(|r| r.name == h.name).count() == 1 {
        let mut rules = s.0.clone();
        rules[k].body = Body::Type(Ty(vec![alts[0].clone()]));
        for alt in &alts[1..] {
          rules.push(RuleT { name: h.name.clone(), params: vec![], assign: Assign::TAlt, body: Body::Type(Ty(vec![alt.clone()])) });
        }
        out.push((format!("helper-choice-as-increments#{k}"), Schema(rules)));
      }
    }
  }
  // (7) generic instantiation vs hand substitution: r = T  <->  r = id<T>, id<t> = t ; and for
  // arrays / maps at the root: [E] <-> arr<E-type>
  out.push(("generic-identity".into(), {
    let mut rules = vec![type_rule("r", ty1(T2::Name("gen-id".into(), vec![T1 { t2: T2::Paren(root.clone()), op: None }])))];
    rules.extend(s.0[1..].iter().cloned());
    rules.push(RuleT { name: "gen-id".into(), params: vec!["t".into()], assign: Assign::Eq, body: Body::Type(ty1(name("t"))) });
    Schema(rules)
  }));
  if root.0.len() == 1 && root.0[0].op.is_none() {
    if let T2::Arr(g) = &root.0[0].t2 {
      if g.0.len() == 1 && g.0[0].len() == 1 {
        if let EK::Val(None, et) = &g.0[0][0].kind {
          let occ = g.0[0][0].occ.clone();
          let mut rules = vec![type_rule("r", ty1(T2::Name("gen-arr".into(), vec![T1 { t2: T2::Paren(et.clone()), op: None }])))];
          rules.extend(s.0[1..].iter().cloned());
          rules.push(RuleT {
            name: "gen-arr".into(),
            params: vec!["t".into()],
            assign: Assign::Eq,
            body: Body::Type(ty1(T2::Arr(Grp(vec![vec![Entry { occ, kind: EK::Val(None, ty1(name("t"))) }]])))),
          });
          out.push(("generic-array".into(), Schema(rules)));
        }
      }
    }
    if let T2::Map(g) = &root.0[0].t2 {
      if g.0.len() == 1 && g.0[0].len() == 1 {
        if let EK::Val(Some(k), vt) = &g.0[0][0].kind {
          let occ = g.0[0][0].occ.clone();
          let mut rules = vec![type_rule("r", ty1(T2::Name("gen-map".into(), vec![T1 { t2: T2::Paren(vt.clone()), op: None }])))];
          rules.extend(s.0[1..].iter().cloned());
          rules.push(RuleT {
            name: "gen-map".into(),
            params: vec!["t".into()],
            assign: Assign::Eq,
            body: Body::Type(ty1(T2::Map(Grp(vec![vec![Entry { occ, kind: EK::Val(Some(k.clone()), ty1(name("t"))) }]])))),
          });
          out.push(("generic-map-value".into(), Schema(rules)));
        }
      }
    }
  }
  // (8) consistent renaming of the helper rules (incl. names that extend prelude names, and a
  // name that differs from a socket only by the prefix), (9) unreachable rules, (10) reordering
  if s.0.len() > 1 {
    let renamers: [(&str, fn(&str) -> String); 3] = [("prelude-like", |n| format!("int-{n}")), ("plain", |n| format!("zz{n}")), ("dotted", |n| format!("{n}.v2"))];
    for (tag, ren) in renamers {
      let names: Vec<String> = s.0[1..].iter().map(|r| r.name.clone()).collect();
      let text = s.render();
      let mut t2 = text.clone();
      // token-level renaming on the rendered text (names are delimited by non-identifier characters)
      for n in &names {
        let mut o = String::new();
        let b: Vec<char> = t2.chars().collect();
        let nb: Vec<char> = n.chars().collect();
        let mut i = 0;
        let idc = |c: char| c.is_alphanumeric() || c == '_' || c == '-' || c == '.' || c == '$' || c == '@';
        while i < b.len() {
          // ("0..one": the dots of a range operator are not part of the identifier)
          let after_range = i >= 2 && b[i - 1] == '.' && b[i - 2] == '.';
          if b[i..].starts_with(&nb) && (i == 0 || !idc(b[i - 1]) || after_range) && (i + nb.len() >= b.len() || !idc(b[i + nb.len()])) && !(i > 0 && b[i - 1] == '"') {
            // do not rename a bareword map key (`gk = (a: int)` keys are not rule names) - keys are followed by ':'
            let after: String = b[i + nb.len()..].iter().take(1).collect();
            if after == ":" {
              o.push_str(n);
            } else {
              o.push_str(&ren(n));
            }
            i += nb.len();
          } else {
            o.push(b[i]);
            i += 1;
          }
        }
        t2 = o;
      }
      out.push((format!("rename-{tag}"), Schema(vec![RuleT { name: t2, params: vec![], assign: Assign::Eq, body: Body::Type(Ty(vec![])) }])));
    }
    let mut rev = vec![s.0[0].clone()];
    rev.extend(s.0[1..].iter().rev().cloned());
    out.push(("reorder-helpers".into(), Schema(rev)));
  }
  for (tag, extra) in [
    ("unreachable-type", type_rule("unused-t", ty1(name("tstr")))),
    ("unreachable-group", group_rule("unused-g", Entry { occ: Occ::One, kind: EK::Inline(Grp(vec![vec![ent(Occ::One, ty1(name("int")))]])) })),
    ("unreachable-generic", RuleT { name: "unused-m".into(), params: vec!["t".into()], assign: Assign::Eq, body: Body::Type(ty1(name("t"))) }),
    ("unreachable-socket-plug", RuleT { name: "$unused".into(), params: vec![], assign: Assign::TAlt, body: Body::Type(ty1(name("int"))) }),
    // a plain rule whose bare name equals a helper's name plus a socket prefix must not interfere
    ("unreachable-socket-namesake", RuleT { name: "$ti".into(), params: vec![], assign: Assign::TAlt, body: Body::Type(ty1(name("tstr"))) }),
    ("unreachable-namesake-of-parameter", type_rule("t", ty1(name("tstr")))),
  ] {
    let mut rules = s.0.clone();
    rules.push(extra);
    out.push((tag.into(), Schema(rules)));
  }
  out
}

/// the rename refactoring carries its text in the rule name (see above)
fn render(s: &Schema) -> String {
  if s.0.len() == 1 && matches!(&s.0[0].body, Body::Type(t) if t.0.is_empty()) {
    return s.0[0].name.clone();
  }
  s.render()
}

// ------------------------------------------------------------------ base schemas

/// extra base schemas (texts are built as terms so that refactorings apply)
fn generic_lib() -> Vec<RuleT> {
  let p = |ps: &[&str]| ps.iter().map(|s| s.to_string()).collect::<Vec<_>>();
  let gi = |es: Vec<Entry>| Entry { occ: Occ::One, kind: EK::Inline(Grp(vec![es])) };
  vec![
    RuleT { name: "g2".into(), params: p(&["t"]), assign: Assign::Eq, body: Body::Group(gi(vec![ent(Occ::One, ty1(name("t"))), ent(Occ::One, ty1(name("t")))])) },
    RuleT { name: "m1".into(), params: p(&["t"]), assign: Assign::Eq, body: Body::Type(ty1(T2::Arr(Grp(vec![vec![ent(Occ::One, ty1(name("t")))]])))) },
    RuleT {
      name: "kv".into(),
      params: p(&["k", "v"]),
      assign: Assign::Eq,
      body: Body::Group(gi(vec![Entry { occ: Occ::One, kind: EK::Val(Some(Key::Arrow(t1(name("k")), false)), ty1(name("v"))) }])),
    },
    RuleT {
      name: "o2".into(),
      params: p(&["t", "u"]),
      assign: Assign::Eq,
      body: Body::Type(ty1(T2::Map(Grp(vec![vec![
        Entry { occ: Occ::One, kind: EK::Val(Some(Key::Bare("a".into())), ty1(name("t"))) },
        Entry { occ: Occ::Opt, kind: EK::Val(Some(Key::Bare("b".into())), ty1(name("u"))) },
      ]])))),
    },
    RuleT { name: "opt".into(), params: p(&["t"]), assign: Assign::Eq, body: Body::Type(Ty(vec![t1(name("t")), t1(name("nil"))])) },
    // a plain rule that shares the name of a generic parameter
    type_rule("t", ty1(name("tstr"))),
  ]
}

fn generic_bases() -> Vec<Ty> {
  let arr = |es: Vec<Entry>| T2::Arr(Grp(vec![es]));
  let g = |o: Occ, n: &str, a: Vec<T1>| Entry { occ: o, kind: EK::Ref(n.into(), a) };
  let n1 = |n: &str, a: Vec<T1>| T2::Name(n.into(), a);
  let i = || t1(name("int"));
  let s = || t1(name("tstr"));
  vec![
    ty1(arr(vec![g(Occ::One, "g2", vec![i()]), g(Occ::One, "g2", vec![s()])])),
    ty1(arr(vec![g(Occ::One, "g2", vec![s()]), g(Occ::One, "g2", vec![i()])])),
    ty1(arr(vec![g(Occ::One, "g2", vec![i()]), ent(Occ::One, ty1(name("t")))])),
    ty1(arr(vec![g(Occ::Star, "g2", vec![i()]), g(Occ::One, "g2", vec![s()])])),
    ty1(arr(vec![g(Occ::Star, "g2", vec![t1(name("ti"))])])),
    ty1(arr(vec![g(Occ::Opt, "g2", vec![i()]), ent(Occ::One, ty1(name("tstr")))])),
    Ty(vec![t1(n1("m1", vec![i()])), t1(n1("m1", vec![s()]))]),
    ty1(arr(vec![ent(Occ::One, ty1(n1("m1", vec![i()]))), ent(Occ::One, ty1(n1("m1", vec![s()])))])),
    ty1(n1("m1", vec![t1(n1("m1", vec![i()]))])),
    ty1(T2::Map(Grp(vec![vec![g(Occ::One, "kv", vec![t1(text("a")), i()]), g(Occ::One, "kv", vec![t1(text("b")), s()])]]))),
    ty1(T2::Map(Grp(vec![vec![g(Occ::One, "kv", vec![t1(text("a")), i()])]]))),
    ty1(n1("o2", vec![i(), s()])),
    ty1(n1("o2", vec![t1(n1("opt", vec![i()])), t1(name("t"))])),
    ty1(arr(vec![ent(Occ::Star, ty1(n1("opt", vec![i()])))])),
    ty1(T2::Map(Grp(vec![vec![Entry { occ: Occ::One, kind: EK::Val(Some(Key::Bare("a".into())), ty1(n1("opt", vec![t1(n1("m1", vec![s()]))]))) }]]))),
  ]
}

fn feature_bases() -> Vec<Ty> {
  let arr = |es: Vec<Entry>| T2::Arr(Grp(vec![es]));
  let gref = |n: &str| Entry { occ: Occ::One, kind: EK::Ref(n.into(), vec![]) };
  let gref_o = |o: Occ, n: &str| Entry { occ: o, kind: EK::Ref(n.into(), vec![]) };
  vec![
    ty1(arr(vec![gref("gs"), gref("gs")])),
    ty1(arr(vec![gref_o(Occ::Star, "gs")])),
    ty1(arr(vec![gref_o(Occ::Opt, "gc"), ent(Occ::One, ty1(name("int")))])),
    ty1(arr(vec![Entry { occ: Occ::Star, kind: EK::Inline(Grp(vec![vec![ent(Occ::One, ty1(name("int"))), ent(Occ::Opt, ty1(name("tstr")))]])) }])),
    ty1(arr(vec![Entry { occ: Occ::One, kind: EK::Inline(Grp(vec![vec![ent(Occ::One, ty1(name("int")))], vec![ent(Occ::One, ty1(name("tstr"))), ent(Occ::One, ty1(name("tstr")))]])) }])),
    Ty(vec![t1(name("ti")), t1(name("tc"))]),
    Ty(vec![t1(name("rec")), t1(name("nil"))]),
    ty1(T2::Map(Grp(vec![vec![gref("gk"), gref("go")]]))),
    ty1(T2::Map(Grp(vec![vec![gref("gk")], vec![gref("go")]]))),
    ty1(arr(vec![ent(Occ::Star, Ty(vec![t1(name("ti")), t1(arr(vec![ent(Occ::Star, ty1(name("tc")))]))]))])),
  ]
}

/// names that are choices, used where the validators classify a name (control targets, table keys)
fn choice_lib() -> Vec<RuleT> {
  vec![
    type_rule("nb", Ty(vec![t1(name("bool")), t1(name("tstr"))])),
    type_rule("nn", Ty(vec![t1(name("tstr")), t1(name("int"))])),
    type_rule("nu", Ty(vec![t1(name("nil")), t1(name("bstr")), t1(name("uint"))])),
    type_rule("na", Ty(vec![t1(name("nil")), t1(name("nb"))])),
  ]
}
fn choice_bases() -> Vec<Ty> {
  let li = |n: i128| T2::Lit(Lit::Int(n));
  let arr = |es: Vec<Entry>| T2::Arr(Grp(vec![es]));
  let mut out = vec![];
  for n in ["nb", "nn", "nu", "na"] {
    for (op, arg) in [("size", li(1)), ("size", li(3)), ("lt", li(2)), ("ge", li(1)), ("ne", li(1)), ("eq", T2::Lit(Lit::Text("a".into()))), ("regexp", T2::Lit(Lit::Text("[a-z]".into())))] {
      out.push(Ty(vec![ctl(name(n), op, arg.clone())]));
      out.push(ty1(arr(vec![ent(Occ::Star, Ty(vec![ctl(name(n), op, arg.clone())]))])));
    }
    out.push(ty1(T2::Map(Grp(vec![vec![Entry { occ: Occ::Star, kind: EK::Val(Some(Key::Arrow(t1(name(n)), false)), ty1(name("any"))) }]]))));
    out.push(ty1(T2::Map(Grp(vec![vec![Entry { occ: Occ::One, kind: EK::Val(Some(Key::Bare("a".into())), Ty(vec![ctl(name(n), "size", li(1))])) }]]))));
  }
  out
}

pub const F_GENERIC: &str = "C08-generic-arguments-resolved-by-name-in-dynamic-scope";

/// Recorded finding: generic parameters are bound by name in validator state that is shared by
/// nested / repeated instantiations, so (a) two instantiations of one generic rule inside a
/// parenthesised type or a generic argument see each other's arguments, (b) a rule instantiated
/// inside its own argument fails, (c) an argument that names a rule spelled like a parameter is
/// captured. Attributed only when the original or the refactored schema uses generic arguments
/// AND the state is on the committed list.
fn classify(orig: &str, refactored: &str, validator: &str, doc: &RV) -> Option<String> {
  if orig.contains('<') || refactored.contains('<') {
    let k = statelist::key(&[orig, refactored, validator, &crate::cborref::rv_to_diag(doc)]);
    if statelist::listed(F_GENERIC, k) {
      return Some(F_GENERIC.into());
    }
  }
  None
}

#[derive(Default)]
struct Acc {
  v: VAcc,
  states: u64,
  transitions: u64,
  nontrivial: u64,
  by_family: BTreeMap<String, u64>,
  unparsed: BTreeMap<String, u64>,
  samples: Vec<serde_json::Value>,
}

fn family_of(label: &str) -> String {
  label.split('#').next().unwrap_or(label).to_string()
}

pub fn check_schema(s: &Schema, docs: &[RV], sdocs: &[serde_json::Value], which: Option<usize>, a: &mut Acc) {
  let text = s.render();
  let (Ok(j0), Ok(c0)) = (json_many(&text, sdocs), cbor_many(&text, docs)) else {
    return;
  };
  a.states += (sdocs.len() + docs.len()) as u64;
  let varied = j0.iter().any(|o| *o == Obs::Ok) && j0.iter().any(|o| *o == Obs::Invalid);
  let rs = refactorings(s);
  for (idx, (label, s2)) in rs.iter().enumerate() {
    if let Some(w) = which {
      if idx % 4 != w % 4 {
        continue;
      }
    }
    let t2 = render(s2);
    let fam = family_of(label);
    let (Ok(j1), Ok(c1)) = (json_many(&t2, sdocs), cbor_many(&t2, docs)) else {
      *a.unparsed.entry(fam).or_insert(0) += 1;
      continue;
    };
    a.transitions += 1;
    *a.by_family.entry(fam.clone()).or_insert(0) += 1;
    if varied {
      a.nontrivial += 1;
    }
    for (validator, base, got, n) in [("json", &j0, &j1, sdocs.len()), ("cbor", &c0, &c1, docs.len())] {
      if let Some(k) = (0..n).find(|&k| base[k].accepted() != got[k].accepted() || matches!(got[k], Obs::Panic(_))) {
        a.v.push(Viol {
          kind: format!("{fam}-{validator}"),
          case: json!({"schema": text, "refactored": t2, "refactoring": label, "validator": validator, "doc": crate::cborref::rv_to_diag(&docs[k]),
                       "cbor": hex(&crate::cborref::preferred(&docs[k])), "json": if is_json(&docs[k]) { Some(to_json_text(&docs[k])) } else { None }}),
          observed: format!("original {} but refactored {}", base[k].short(), got[k].short()),
          expected: "the same verdict".into(),
          finding: classify(&text, &t2, validator, &docs[k]),
        });
      }
    }
    if a.samples.len() < 2 && a.transitions % 1499 == 7 {
      a.samples.push(json!({"schema": text, "refactoring": label, "refactored": t2}));
    }
  }
}

pub fn run(tier: Tier) -> i32 {
  quiet_panics();
  let mut run = Run::new("C08", tier, "model_checking");
  let mut docs = json_universe(Tier::Quick);
  // four-element arrays (two instantiations of a two-element generic group) and deeper nestings
  for a in [vec![i(1), i(2), t("a"), t("b")], vec![i(1), i(2), i(3), i(4)], vec![t("a"), t("b"), t("c"), t("d")], vec![t("a"), t("b"), i(1), i(2)], vec![i(1), i(1), t("a")]] {
    docs.push(RV::Array(a));
  }
  docs.push(RV::Array(vec![RV::Array(vec![RV::Array(vec![i(1)])])]));
  docs.push(RV::Map(vec![(t("a"), RV::Array(vec![t("x")]))]));
  docs.push(RV::Map(vec![(t("a"), i(1)), (t("b"), t("x"))]));
  let sdocs: Vec<serde_json::Value> = docs.iter().map(rv_to_serde).collect();
  let lib = helper_rules();
  let cfg = core_cfg();
  let w = std::env::var("VERIF_W").ok().and_then(|s| s.parse().ok()).unwrap_or(tier.pick(3usize, 4usize));
  let en = Enum::new(&cfg, w);
  let mut bases: Vec<(Schema, Option<usize>)> = vec![];
  for k in 1..=w {
    for (i, ty) in en.types(k).iter().enumerate() {
      // weight <= 2: every refactoring instance; weight 3: every instance (thorough) or one
      // residue class of the instance list (quick), rotating over the schemas
      let _ = i;
      let which = None;
      bases.push((assemble(ty.clone(), &lib), which));
    }
  }
  for ty in feature_bases() {
    bases.push((assemble(ty, &lib), None));
  }
  let mut glib = lib.clone();
  glib.extend(generic_lib());
  for ty in generic_bases() {
    bases.push((assemble(ty, &glib), None));
  }
  let mut clib = lib.clone();
  clib.extend(choice_lib());
  for ty in choice_bases() {
    bases.push((assemble(ty, &clib), None));
  }
  let accs = par_sweep(bases.len(), 4, Acc::default, |i, a: &mut Acc| check_schema(&bases[i].0, &docs, &sdocs, bases[i].1, a));
  let mut fam: BTreeMap<String, u64> = BTreeMap::new();
  let mut unp: BTreeMap<String, u64> = BTreeMap::new();
  for a in accs {
    run.absorb(a.v);
    run.states += a.states;
    run.transitions += a.transitions;
    run.nontrivial += a.nontrivial;
    for (k, v) in a.by_family {
      *fam.entry(k).or_insert(0) += v;
    }
    for (k, v) in a.unparsed {
      *unp.entry(k).or_insert(0) += v;
    }
    for s in a.samples {
      run.sample(s);
    }
  }
  run.traces = run.transitions * (docs.len() as u64) * 2;
  run.evaluations = run.traces;
  run.set("base_schemas", json!(bases.len()));
  run.set("refactoring_instances_by_family", json!(fam));
  run.set("refactored_schema_not_accepted_by_the_parser", json!(unp));
  run.set("documents", json!(docs.len()));
  run.rule = format!(
    "state = (base schema, document); transition = one refactoring instance applied to the base schema. Base schemas: every type term of weight <= {w} over the C01 core alphabet \
     (with the helper rules it references) plus 10 group/alias-heavy schemas and 15 schemas over generic group and type rules (the same generic rule instantiated twice with different arguments, nested instantiation, a plain rule sharing a parameter's name). Refactoring families, every applicable instance at every position: extract the k-th nested type into a fresh \
     rule; redundant parentheses around the k-th nested type; extract the k-th inline group into a fresh group rule; inline the k-th group reference / type reference; the root choice as \
     base rule + '/=' increments (adjacent and at the end of the document) and through a $socket; generic instantiation vs hand substitution (identity, array element, map value, and every reference to a generic group or type rule replaced by its body with the arguments substituted); consistent \
     renaming of the helper rules (prelude-like prefix, plain, dotted); reordering of the helper rules; adding unreachable type / group / generic / socket rules incl. a socket that shares a \
     helper's bare name and a rule that shares a generic parameter's name. Oracle: both real validators give the refactored schema the original's verdict on each of the {} documents \
     (JSON universe; CBOR: preferred encodings of the same values). non-trivial = instances on schemas that accept some and reject some document.",
    docs.len()
  );
  run.exhaustive = true;
  run.finish()
}

pub fn replay(case: &serde_json::Value) -> Option<Viol> {
  let a = case["schema"].as_str()?;
  let b = case["refactored"].as_str()?;
  let (x, y) = if case["validator"] == "json" {
    (json_str(a, case["json"].as_str()?), json_str(b, case["json"].as_str()?))
  } else {
    let bytes = unhex(case["cbor"].as_str()?);
    (cbor_slice(a, &bytes), cbor_slice(b, &bytes))
  };
  (x.accepted() != y.accepted()).then(|| Viol { kind: "refactoring".into(), case: case.clone(), observed: format!("original {} but refactored {}", x.short(), y.short()), expected: "the same verdict".into(), finding: None })
}
