//! Alphabets (Σ) for the verdict properties and assembly of schemas with the helper
//! rule library.
use crate::terms::*;

pub fn helper_rules() -> Vec<RuleT> {
  vec![
    type_rule("ti", ty1(name("int"))),
    type_rule("tc", Ty(vec![t1(name("tstr")), t1(name("nil"))])),
    type_rule(
      "rec",
      Ty(vec![t1(name("int")), t1(T2::Arr(Grp(vec![vec![ent(Occ::Star, ty1(name("rec")))]])))]),
    ),
    type_rule("one", ty1(int(1))),
    group_rule(
      "gs",
      Entry { occ: Occ::One, kind: EK::Inline(Grp(vec![vec![ent(Occ::One, ty1(name("int"))), ent(Occ::One, ty1(name("tstr")))]])) },
    ),
    // (a bare `gk = a: int` is read as the type rule `gk = a` by the PEG parser and then fails: C03's business)
    group_rule(
      "gk",
      Entry { occ: Occ::One, kind: EK::Inline(Grp(vec![vec![Entry { occ: Occ::One, kind: EK::Val(Some(Key::Bare("a".into())), ty1(name("int"))) }]])) },
    ),
    group_rule(
      "go",
      Entry { occ: Occ::One, kind: EK::Inline(Grp(vec![vec![Entry { occ: Occ::Opt, kind: EK::Val(Some(Key::Bare("b".into())), ty1(name("tstr"))) }]])) },
    ),
    group_rule(
      "gc",
      Entry {
        occ: Occ::One,
        kind: EK::Inline(Grp(vec![vec![ent(Occ::One, ty1(name("int")))], vec![ent(Occ::One, ty1(name("tstr"))), ent(Occ::One, ty1(name("tstr")))]])),
      },
    ),
  ]
}

fn names_t2(t: &T2, out: &mut Vec<String>) {
  match t {
    T2::Name(n, a) | T2::Unwrap(n, a) | T2::EnumRef(n, a) => {
      out.push(n.clone());
      a.iter().for_each(|x| names_t1(x, out));
    }
    T2::Paren(t) | T2::Tag(_, t) => names_ty(t, out),
    T2::Map(g) | T2::Arr(g) | T2::EnumInline(g) => names_grp(g, out),
    _ => {}
  }
}
fn names_t1(t: &T1, out: &mut Vec<String>) {
  names_t2(&t.t2, out);
  if let Some((_, a)) = &t.op {
    names_t2(a, out);
  }
}
pub fn names_ty(t: &Ty, out: &mut Vec<String>) {
  t.0.iter().for_each(|x| names_t1(x, out));
}
pub fn names_entry(e: &Entry, out: &mut Vec<String>) {
  match &e.kind {
    EK::Val(k, t) => {
      if let Some(Key::Arrow(k, _)) = k {
        names_t1(k, out);
      }
      names_ty(t, out)
    }
    EK::Ref(n, a) => {
      out.push(n.clone());
      a.iter().for_each(|x| names_t1(x, out));
    }
    EK::Inline(g) => names_grp(g, out),
  }
}
fn names_grp(g: &Grp, out: &mut Vec<String>) {
  g.0.iter().for_each(|c| c.iter().for_each(|e| names_entry(e, out)));
}
pub fn names_rule(r: &RuleT, out: &mut Vec<String>) {
  match &r.body {
    Body::Type(t) => names_ty(t, out),
    Body::Group(e) => names_entry(e, out),
  }
}

/// root rule `r = ty` followed by exactly the helper rules it (transitively) references
pub fn assemble(root: Ty, lib: &[RuleT]) -> Schema {
  let mut rules = vec![type_rule("r", root)];
  let mut i = 0;
  while i < rules.len() {
    let mut ns = vec![];
    names_rule(&rules[i], &mut ns);
    for n in ns {
      if !rules.iter().any(|r| r.name == n) {
        for l in lib.iter().filter(|l| l.name == n) {
          rules.push(l.clone());
        }
      }
    }
    i += 1;
  }
  Schema(rules)
}

pub fn f(x: f64) -> T2 {
  T2::Lit(Lit::Float(x))
}

/// Σ_core of C01
pub fn core_cfg() -> Cfg {
  let mut atoms: Vec<T2> =
    ["any", "int", "uint", "nint", "float", "number", "tstr", "bool", "true", "false", "nil"].iter().map(|s| name(s)).collect();
  atoms.extend([int(0), int(1), int(2), int(-1), f(1.5), text("a"), text("b")]);
  atoms.extend([name("ti"), name("tc"), name("rec")]);
  let sz = |a: i128, b: i128| T2::Paren(Ty(vec![range(int(a), int(b), true)]));
  let t1s = vec![
    range(int(0), int(1), true),
    range(int(0), int(2), false),
    range(int(-1), int(1), true),
    range(f(0.5), f(1.5), true),
    range(int(0), name("one"), true),
    ctl(name("tstr"), "size", int(1)),
    ctl(name("tstr"), "size", int(0)),
    ctl(name("tstr"), "size", sz(1, 2)),
    ctl(name("uint"), "size", int(1)),
    ctl(name("int"), "lt", int(1)),
    ctl(name("int"), "le", int(1)),
    ctl(name("int"), "gt", int(1)),
    ctl(name("int"), "ge", int(1)),
    ctl(name("int"), "eq", int(1)),
    ctl(name("int"), "ne", int(1)),
    ctl(name("uint"), "gt", int(0)),
    ctl(name("tstr"), "eq", text("a")),
    ctl(name("tstr"), "ne", text("a")),
    ctl(name("float"), "lt", f(1.5)),
    ctl(name("float"), "ge", f(1.5)),
  ];
  Cfg {
    atoms,
    t1s,
    occs: vec![Occ::Opt, Occ::Star, Occ::Plus, Occ::Range(Some(1), Some(2)), Occ::Range(Some(2), Some(2)), Occ::Range(None, Some(1)), Occ::Range(Some(2), None)],
    map_keys: vec![
      Key::Bare("a".into()),
      Key::Bare("b".into()),
      Key::Arrow(t1(text("a")), false),
      Key::Arrow(t1(name("tstr")), false),
      Key::Arrow(t1(text("a")), true),
    ],
    arr_keys: vec![Key::Bare("a".into())],
    group_refs: vec!["gs".into(), "gk".into(), "go".into(), "gc".into()],
    max_choice: 3,
    max_entries: 3,
    max_gchoice: 2,
    arrays: true,
    maps: true,
    inline_groups: true,
    parens: true,
    tags: vec![],
    max_depth: 2,
  }
}
