//! C18 — the command-line tool reports exactly what the library decides.
//! state = one invocation of the real `cddl` binary (built from /repo's working tree):
//! (schema file, ordered documents per route, stdin content, --features spelling, --ci,
//! --csv-header, comma-joined vs repeated flags). The oracle calls the library entry points
//! in-process with the same schema text, document bytes and feature list, and compares
//! the per-document success reports (log lines) and, with --ci, the exit status.
use crate::core::*;
use serde_json::json;
use std::collections::BTreeSet;
use std::io::Write;
use std::path::{Path, PathBuf};
use std::process::{Command, Stdio};

pub const CLI_TARGET: &str = "/verif/mc/target-cli";

/// (file name, content); None content = the file does not exist
const SCHEMAS: [(&str, Option<&str>); 10] = [
  ("plain.cddl", Some("r = { x: int }\n")),
  ("feat.cddl", Some("r = { x: int / ((tstr .size 1) .feature \"alpha\"), ? y: int / ((tstr .size 1) .feature \"beta\") }\n")),
  ("genfirst.cddl", Some("w<t> = { x: t }\nr = w<int>\n")),
  ("groupfirst.cddl", Some("g = ( x: int )\nr = { g }\n")),
  ("rows.cddl", Some("r = [* [tstr, int]]\n")),
  ("rowsfeat.cddl", Some("r = [* [tstr, int / ((tstr .size 1) .feature \"alpha\")]]\n")),
  ("scalar.cddl", Some("r = int / tstr\n")),
  ("broken.cddl", Some("r = { x: \n")),
  ("noroot.cddl", Some("g = ( x: int )\n")),
  ("missing.cddl", None),
];

#[derive(Clone, Copy, PartialEq, Eq, PartialOrd, Ord, Debug)]
enum Route {
  Json,
  Cbor,
  Csv,
}

/// document menu: (route, file name, content)
fn documents() -> Vec<(Route, &'static str, Option<Vec<u8>>)> {
  let j = |s: &str| Some(s.as_bytes().to_vec());
  let c = |v: serde_json::Value| {
    let mut out = vec![];
    let cv: ciborium::value::Value = json_to_cbor(&v);
    ciborium::ser::into_writer(&cv, &mut out).unwrap();
    Some(out)
  };
  vec![
    (Route::Json, "ok.json", j("{\"x\":1}")),
    (Route::Json, "bad.json", j("{\"x\":1.5}")),
    (Route::Json, "xlong.json", j("{\"x\":\"ss\"}")),
    (Route::Json, "ylong.json", j("{\"x\":1,\"y\":\"ss\"}")),
    (Route::Json, "rows.json", j("[[\"a\",1]]")),
    (Route::Json, "rowst.json", j("[[\"a\",\"ss\"]]")),
    (Route::Json, "malformed.json", j("{\"x\":")),
    (Route::Json, "nope.json", None),
    (Route::Cbor, "ok.cbor", c(json!({"x":1}))),
    (Route::Cbor, "bad.cbor", c(json!({"x":1.5}))),
    (Route::Cbor, "xlong.cbor", c(json!({"x":"ss"}))),
    (Route::Cbor, "ylong.cbor", c(json!({"x":1,"y":"ss"}))),
    (Route::Cbor, "rows.cbor", c(json!([["a", 1]]))),
    (Route::Cbor, "rowst.cbor", c(json!([["a", "ss"]]))),
    (Route::Cbor, "malformed.cbor", Some(vec![0xa1, 0x61])),
    (Route::Cbor, "nope.cbor", None),
    (Route::Csv, "plain.csv", j("a,1\nb,2\n")),
    (Route::Csv, "header.csv", j("name,value\na,1\n")),
    (Route::Csv, "text.csv", j("a,bb\n")),
    (Route::Csv, "nope.csv", None),
  ]
}

fn json_to_cbor(v: &serde_json::Value) -> ciborium::value::Value {
  use ciborium::value::Value as C;
  match v {
    serde_json::Value::Null => C::Null,
    serde_json::Value::Bool(b) => C::Bool(*b),
    serde_json::Value::Number(n) => {
      if let Some(i) = n.as_i64() {
        C::Integer(i.into())
      } else {
        C::Float(n.as_f64().unwrap())
      }
    }
    serde_json::Value::String(s) => C::Text(s.clone()),
    serde_json::Value::Array(a) => C::Array(a.iter().map(json_to_cbor).collect()),
    serde_json::Value::Object(o) => C::Map(o.iter().map(|(k, v)| (C::Text(k.clone()), json_to_cbor(v))).collect()),
  }
}

/// stdin menu: bytes (UTF-8 => the tool's JSON route, otherwise its CBOR route)
fn stdins() -> Vec<(&'static str, Vec<u8>)> {
  let docs = documents();
  let get = |n: &str| docs.iter().find(|d| d.1 == n).unwrap().2.clone().unwrap();
  vec![
    ("json-ok", get("ok.json")),
    ("json-xlong", get("xlong.json")),
    ("json-bad", get("bad.json")),
    ("cbor-ok", get("ok.cbor")),
    ("cbor-xlong", get("xlong.cbor")),
    ("cbor-bad", get("bad.cbor")),
    // one CBOR data item that is also valid UTF-8 (0x01 = unsigned 1): the tool documents that it reads this as JSON
    ("utf8-cbor", vec![0x01]),
    // UTF-8 texts that are malformed JSON and at the same time one well-formed CBOR item (-14, "X")
    ("utf8-cbor-nint", b"-".to_vec()),
    ("utf8-cbor-text", b"aX".to_vec()),
    ("json-scalar", b"1".to_vec()),
  ]
}

/// --features spellings: (arguments, the feature list the library is to receive)
const FEATS: [(&[&str], Option<&[&str]>); 9] = [
  (&[], None),
  (&["-f", "alpha"], Some(&["alpha"])),
  (&["--features", "beta"], Some(&["beta"])),
  (&["-f", "alpha,beta"], Some(&["alpha", "beta"])),
  (&["-f", "alpha", "-f", "beta"], Some(&["alpha", "beta"])),
  (&["--features=gamma,alpha"], Some(&["gamma", "alpha"])),
  // a list that holds only empty names is still a list: every named feature is disabled (spellings 6.. are
  // swept for the feature-guarded schemas only)
  (&["-f", ""], Some(&[""])),
  (&["--features", ","], Some(&["", ""])),
  (&["-f", "beta,"], Some(&["beta", ""])),
];

#[derive(Clone, Debug)]
struct Inv {
  schema: usize,
  feat: usize,
  ci: bool,
  header: bool,
  comma: bool,
  docs: Vec<usize>,
  stdin: Option<usize>,
}

fn strip_ansi(s: &str) -> String {
  let mut out = String::new();
  let mut it = s.chars();
  while let Some(c) = it.next() {
    if c == '\x1b' {
      // CSI ... final byte in @..~
      if it.next() == Some('[') {
        for d in it.by_ref() {
          if ('@'..='~').contains(&d) {
            break;
          }
        }
      }
    } else {
      out.push(c);
    }
  }
  out
}

pub fn build_cli() -> Result<PathBuf, String> {
  let out = Command::new("cargo")
    .args(["build", "--offline", "--release", "--bin", "cddl", "--manifest-path", "/repo/Cargo.toml", "--target-dir", CLI_TARGET])
    .env("CARGO_NET_OFFLINE", "true")
    .output()
    .map_err(|e| e.to_string())?;
  if !out.status.success() {
    return Err(String::from_utf8_lossy(&out.stderr).lines().rev().take(30).collect::<Vec<_>>().join("\n"));
  }
  let p = PathBuf::from(format!("{CLI_TARGET}/release/cddl"));
  if !p.exists() {
    return Err("cddl binary not produced".into());
  }
  Ok(p)
}

fn workdir() -> PathBuf {
  let d = PathBuf::from(format!("{CLI_TARGET}/work-{}", std::process::id()));
  let _ = std::fs::remove_dir_all(&d);
  std::fs::create_dir_all(&d).expect("workdir");
  for (n, c) in SCHEMAS {
    if let Some(c) = c {
      std::fs::write(d.join(n), c).unwrap();
    }
  }
  for (_, n, c) in documents() {
    if let Some(c) = c {
      std::fs::write(d.join(n), c).unwrap();
    }
  }
  d
}

struct Obs {
  code: Option<i32>,
  successes: Vec<String>,
  log: String,
}

fn invoke(bin: &Path, dir: &Path, args: &[String], stdin: Option<&[u8]>) -> Obs {
  let mut ch = Command::new(bin)
    .args(args.iter().map(|a| a.replace("@/", &format!("{}/", dir.display()))))
    .env("NO_COLOR", "1")
    .stdin(if stdin.is_some() { Stdio::piped() } else { Stdio::null() })
    .stdout(Stdio::piped())
    .stderr(Stdio::piped())
    .spawn()
    .expect("spawn cddl");
  if let Some(b) = stdin {
    let mut si = ch.stdin.take().unwrap();
    let _ = si.write_all(b);
  }
  let out = ch.wait_with_output().expect("wait");
  let log = strip_ansi(&format!("{}{}", String::from_utf8_lossy(&out.stdout), String::from_utf8_lossy(&out.stderr)));
  // success reports in the order the tool printed them (stdout only carries INFO lines)
  let so = strip_ansi(&String::from_utf8_lossy(&out.stdout));
  let mut successes = vec![];
  for l in so.lines() {
    if let Some(p) = l.find("Validation of ") {
      if let Some(rest) = l[p + 14..].strip_suffix(" is successful") {
        successes.push(rest.trim_matches('"').rsplit('/').next().unwrap_or("").to_string());
      }
    } else if l.contains("Validation from stdin is successful") {
      successes.push("<stdin>".into());
    }
  }
  Obs { code: out.status.code(), successes, log }
}

fn args_of(inv: &Inv, docs: &[(Route, &'static str, Option<Vec<u8>>)]) -> Vec<String> {
  let mut a: Vec<String> = vec![];
  if inv.ci {
    a.push("--ci".into());
  }
  a.push("validate".into());
  a.push("-d".into());
  a.push(format!("@/{}", SCHEMAS[inv.schema].0));
  for f in FEATS[inv.feat].0 {
    a.push(f.to_string());
  }
  for (route, flag) in [(Route::Json, "-j"), (Route::Cbor, "-c"), (Route::Csv, "--csv")] {
    let names: Vec<String> = inv.docs.iter().filter(|&&d| docs[d].0 == route).map(|&d| format!("@/{}", docs[d].1)).collect();
    if names.is_empty() {
      continue;
    }
    if inv.comma {
      a.push(flag.into());
      a.push(names.join(","));
    } else {
      for n in names {
        a.push(flag.into());
        a.push(n);
      }
    }
  }
  if inv.header {
    a.push("--csv-header".into());
  }
  if inv.stdin.is_some() {
    a.push("--stdin".into());
  }
  a
}

/// what the library decides for this invocation: (documents the tool has to report as successful, in
/// processing order; must the --ci exit status be non-zero)
fn expected(inv: &Inv, docs: &[(Route, &'static str, Option<Vec<u8>>)], stdins: &[(&'static str, Vec<u8>)]) -> (Vec<String>, bool) {
  let feats = FEATS[inv.feat].1;
  let Some(schema) = SCHEMAS[inv.schema].1 else { return (vec![], true) };
  // the schema "does not compile" when the library cannot find / parse a root
  // (own walk over the rules: the tool's root lookup is part of what is checked)
  let has_root = match catch(|| cddl::cddl_from_str(schema, false)) {
    Ok(Ok(ast)) => ast.rules.iter().any(|r| matches!(r, cddl::ast::Rule::Type { rule, .. } if rule.generic_params.is_none())),
    _ => false,
  };
  if !has_root {
    return (vec![], true);
  }
  let mut ok = vec![];
  let mut failed = false;
  let mut order: Vec<usize> = vec![];
  for route in [Route::Json, Route::Cbor, Route::Csv] {
    order.extend(inv.docs.iter().filter(|&&d| docs[d].0 == route));
  }
  for d in order {
    let (route, name, content) = &docs[d];
    let verdict = match content {
      None => false,
      Some(bytes) => match route {
        Route::Json => match std::str::from_utf8(bytes) {
          Ok(s) => catch(|| cddl::validate_json_from_str(schema, s, feats).is_ok()).unwrap_or(false),
          Err(_) => false,
        },
        Route::Cbor => catch(|| cddl::validate_cbor_from_slice(schema, bytes, feats).is_ok()).unwrap_or(false),
        Route::Csv => {
          let s = std::str::from_utf8(bytes).unwrap();
          let h = if inv.header { Some(true) } else { None };
          catch(|| cddl::validate_csv_from_str(schema, s, h, feats).is_ok()).unwrap_or(false)
        }
      },
    };
    if verdict {
      ok.push(name.to_string());
    } else {
      failed = true;
      if inv.ci {
        return (ok, true); // --ci stops at the first failing document
      }
    }
  }
  if let Some(s) = inv.stdin {
    let bytes = &stdins[s].1;
    let verdict = match std::str::from_utf8(bytes) {
      Ok(t) => catch(|| cddl::validate_json_from_str(schema, t, feats).is_ok()).unwrap_or(false),
      Err(_) => catch(|| cddl::validate_cbor_from_slice(schema, bytes, feats).is_ok()).unwrap_or(false),
    };
    if verdict {
      ok.push("<stdin>".into());
    } else {
      failed = true;
    }
  }
  (ok, failed)
}

fn judge(bin: &Path, dir: &Path, inv: &Inv, docs: &[(Route, &'static str, Option<Vec<u8>>)], stdins: &[(&'static str, Vec<u8>)]) -> Option<Viol> {
  let args = args_of(inv, docs);
  let si = inv.stdin.map(|s| stdins[s].1.as_slice());
  let t0 = std::time::Instant::now();
  let obs = invoke(bin, dir, &args, si);
  T_INV.fetch_add(t0.elapsed().as_micros() as u64, std::sync::atomic::Ordering::Relaxed);
  let (ok, must_fail) = expected(inv, docs, stdins);
  let case = json!({
    "args": args,
    "schema": SCHEMAS[inv.schema].1,
    "stdin_hex": si.map(hex),
    "files": inv.docs.iter().map(|&d| json!({"name": docs[d].1, "hex": docs[d].2.as_ref().map(|b| hex(b))})).collect::<Vec<_>>(),
  });
  let mk = |kind: &str, observed: String, expected: String| Some(Viol { kind: kind.into(), case: case.clone(), observed, expected, finding: None });
  if obs.code.is_none() {
    return mk("cli-killed-by-signal", trunc(&obs.log), "an exit status".into());
  }
  if obs.code == Some(2) && obs.log.contains("Usage:") {
    return mk("cli-rejects-documented-arguments", trunc(&obs.log), "the invocation is accepted (documented flags, value lists and repetitions)".into());
  }
  if obs.successes != ok {
    return mk(
      "report-differs-from-library",
      format!("tool reports success for {:?}; log: {}", obs.successes, trunc(&obs.log.replace('\n', " | "))),
      format!("success exactly for {ok:?} (library verdicts with features {:?}{})", FEATS[inv.feat].1, if inv.ci { ", --ci stops at the first failure" } else { "" }),
    );
  }
  if inv.ci {
    let nonzero = obs.code != Some(0);
    if nonzero != must_fail {
      return mk(
        "ci-exit-status",
        format!("exit status {:?}; log: {}", obs.code, trunc(&obs.log.replace('\n', " | "))),
        format!("with --ci the exit status is {}", if must_fail { "non-zero (a document fails / is missing / the schema does not compile)" } else { "zero (every document validates)" }),
      );
    }
  }
  None
}

/// ordered sequences of <= l documents of `menu`, canonical = grouped by route in processing order (order inside a route kept)
fn sequences(menu: &[usize], l: usize, docs: &[(Route, &'static str, Option<Vec<u8>>)]) -> BTreeSet<Vec<usize>> {
  let mut seqs: BTreeSet<Vec<usize>> = BTreeSet::new();
  let mut frontier: Vec<Vec<usize>> = vec![vec![]];
  seqs.insert(vec![]);
  for _ in 0..l {
    let mut next = vec![];
    for s in &frontier {
      for &d in menu {
        let mut c = s.clone();
        c.push(d);
        c.sort_by_key(|&x| docs[x].0); // stable
        if seqs.insert(c.clone()) {
          next.push(c);
        }
      }
    }
    frontier = next;
  }
  seqs
}

/// The kernel of this sandbox creates ~130 processes per second however many cores ask, so the quick tier is laid out to
/// cover each interaction the tool's code has with few process runs: without --ci the documents of one run are judged
/// independently, so one run can carry the whole menu.
fn invocations(tier: Tier, ndocs: usize, nstdin: usize, docs: &[(Route, &'static str, Option<Vec<u8>>)]) -> Vec<Inv> {
  let mut out = vec![];
  let all: Vec<usize> = (0..ndocs).collect();
  let multi_of = |s: &[usize]| [Route::Json, Route::Cbor, Route::Csv].iter().any(|r| s.iter().filter(|&&d| docs[d].0 == *r).count() > 1);
  let has_csv = |s: &[usize]| s.iter().any(|&d| docs[d].0 == Route::Csv);
  for schema in 0..SCHEMAS.len() {
    for feat in 0..FEATS.len() {
      if feat >= 6 && !matches!(schema, 1 | 5) {
        continue;
      }
      // A. the whole menu in one run, no --ci: every (schema, features, document) verdict and every stdin content
      for stdin in std::iter::once(None).chain((0..nstdin).map(Some)) {
        out.push(Inv { schema, feat, ci: false, header: false, comma: true, docs: all.clone(), stdin });
      }
      out.push(Inv { schema, feat, ci: false, header: true, comma: false, docs: all.clone(), stdin: None });
      // B. --ci with a single target: the exit status for every (schema, features, document)
      for d in 0..ndocs {
        for header in if docs[d].0 == Route::Csv { vec![false, true] } else { vec![false] } {
          out.push(Inv { schema, feat, ci: true, header, comma: false, docs: vec![d], stdin: None });
        }
      }
      for s in 0..nstdin {
        out.push(Inv { schema, feat, ci: true, header: false, comma: false, docs: vec![], stdin: Some(s) });
      }
    }
  }
  // C. ordered sequences (what --ci stops at, what is reported after a failure, comma-joined vs repeated flags)
  let name = |n: &str| docs.iter().position(|d| d.1 == n).unwrap();
  let small: Vec<usize> = ["ok.json", "xlong.json", "nope.json", "ok.cbor", "xlong.cbor", "nope.cbor", "plain.csv", "header.csv", "nope.csv"].iter().map(|n| name(n)).collect();
  // (space, schemas, feature spellings, stdin contents) of the pair sweeps
  let every_stdin: Vec<Option<usize>> = std::iter::once(None).chain((0..nstdin).map(Some)).collect();
  let sweeps: Vec<(Vec<usize>, Vec<usize>, Vec<usize>, Vec<Option<usize>>)> = match tier {
    Tier::Quick => vec![(small.clone(), vec![1], vec![0, 3], vec![None, Some(1)])],
    Tier::Thorough => vec![
      // every pair of the whole menu, every schema and spelling, stdin absent
      (all.clone(), (0..SCHEMAS.len()).collect(), (0..6).collect(), vec![None]),
      // every pair of the small menu with every stdin content, feature-guarded schemas
      (small.clone(), vec![1, 5], (0..FEATS.len()).collect(), every_stdin[1..].to_vec()),
    ],
  };
  for (menu, schemas, feats, stdin_opts) in sweeps {
    let seqs = sequences(&menu, 2, docs);
    for &schema in &schemas {
      for &feat in &feats {
        for ci in [false, true] {
          for s in seqs.iter().filter(|s| s.len() >= 2) {
            for &stdin in &stdin_opts {
              for header in if has_csv(s) { vec![false, true] } else { vec![false] } {
                for comma in if multi_of(s) { vec![false, true] } else { vec![false] } {
                  out.push(Inv { schema, feat, ci, header, comma, docs: s.clone(), stdin });
                }
              }
            }
          }
        }
      }
    }
  }
  if tier == Tier::Thorough {
    // three documents over the small menu for the feature-guarded schema
    for s in sequences(&small, 3, docs).iter().filter(|s| s.len() == 3) {
      for feat in [0, 3] {
        for ci in [false, true] {
          out.push(Inv { schema: 1, feat, ci, header: false, comma: multi_of(s), docs: s.clone(), stdin: None });
        }
      }
    }
  }
  out
}

static T_EXP: std::sync::atomic::AtomicU64 = std::sync::atomic::AtomicU64::new(0);
static T_INV: std::sync::atomic::AtomicU64 = std::sync::atomic::AtomicU64::new(0);

#[derive(Default)]
struct Acc {
  v: VAcc,
  n: u64,
  reports: u64,
  fails: u64,
  outcomes: BTreeSet<String>,
}

/// texts for `compile-cddl`: accepted and rejected documents
fn compile_texts() -> Vec<String> {
  let mut t: Vec<String> = crate::syn::docs_multi(Tier::Quick).into_iter().step_by(5).collect();
  let base = ["a = int\n", "a = { x: int, ? y: tstr }\n", "a = [* b]\nb = #6.1(int) / ~c\nc = [int]\n", "g = ( x: int )\n", "a<t> = [t]\nb = a<int>\n", ""];
  for b in base {
    t.push(b.to_string());
    // every single-character deletion
    let cs: Vec<char> = b.chars().collect();
    for i in 0..cs.len() {
      let mut s = String::new();
      for (k, c) in cs.iter().enumerate() {
        if k != i {
          s.push(*c);
        }
      }
      t.push(s);
    }
  }
  // undefined references and duplicate rules are compile errors of the crate too
  t.push("a = b\n".into());
  t.push("a = int\na = tstr\n".into());
  t.sort();
  t.dedup();
  t
}

pub fn run(tier: Tier) -> i32 {
  quiet_panics();
  let mut run = Run::new("C18", tier, "model_checking");
  let bin = match build_cli() {
    Ok(b) => b,
    Err(e) => {
      println!("ENGINE-ERROR building the cddl binary from /repo failed:\n{e}");
      return 2;
    }
  };
  let dir = workdir();
  let docs = documents();
  let sins = stdins();
  let mut invs = invocations(tier, docs.len(), sins.len(), &docs);
  if std::env::var("VERIF_DEBUG").is_ok() {
    eprintln!("{} validate invocations", invs.len());
  }
  if let Some(n) = std::env::var("VERIF_LIMIT").ok().and_then(|s| s.parse::<usize>().ok()) {
    invs.truncate(n); // debugging aid only (never set by the registered commands)
  }
  let accs = par_sweep(invs.len(), 8, Acc::default, |i, a: &mut Acc| {
    let inv = &invs[i];
    a.n += 1;
    let t0 = std::time::Instant::now();
    let (ok, fail) = expected(inv, &docs, &sins);
    T_EXP.fetch_add(t0.elapsed().as_micros() as u64, std::sync::atomic::Ordering::Relaxed);
    a.reports += ok.len() as u64;
    a.fails += fail as u64;
    a.outcomes.insert(format!("{}:{}", ok.len(), fail));
    if let Some(v) = judge(&bin, &dir, inv, &docs, &sins) {
      a.v.push(v);
    }
  });
  if std::env::var("VERIF_DEBUG").is_ok() {
    eprintln!("time in oracle {} ms, in process runs {} ms (summed over threads)", T_EXP.load(std::sync::atomic::Ordering::Relaxed) / 1000, T_INV.load(std::sync::atomic::Ordering::Relaxed) / 1000);
  }
  // compile-cddl
  let texts = compile_texts();
  let cdir = dir.join("compile");
  std::fs::create_dir_all(&cdir).unwrap();
  for (i, t) in texts.iter().enumerate() {
    std::fs::write(cdir.join(format!("t{i}.cddl")), t).unwrap();
  }
  let caccs = par_sweep(texts.len() * 2 + 2, 4, Acc::default, |x, a: &mut Acc| {
    a.n += 1;
    if let Some(v) = judge_compile(&bin, &cdir, &texts, x) {
      a.v.push(v);
    }
  });
  let (mut n, mut reports, mut fails, mut cn) = (0, 0, 0, 0);
  let mut outcomes = BTreeSet::new();
  for a in accs {
    run.absorb(a.v);
    n += a.n;
    reports += a.reports;
    fails += a.fails;
    outcomes.extend(a.outcomes);
  }
  for a in caccs {
    run.absorb(a.v);
    cn += a.n;
  }
  let _ = std::fs::remove_dir_all(&dir);
  for i in [0usize, invs.len() / 2, invs.len() - 1] {
    if let Some(inv) = invs.get(i) {
      let (ok, fail) = expected(inv, &docs, &sins);
      run.sample(json!({"args": args_of(inv, &docs), "stdin": inv.stdin.map(|s| sins[s].0), "expected_success_reports": ok, "expected_ci_failure": fail}));
    }
  }
  run.states = n + cn;
  run.transitions = n + cn;
  run.traces = n + cn;
  run.evaluations = n + cn;
  run.nontrivial = n + cn;
  run.set("validate_invocations", json!(n));
  run.set("compile_cddl_invocations", json!(cn));
  run.set("expected_success_reports", json!(reports));
  run.set("invocations_with_a_failing_document_or_schema", json!(fails));
  run.set("distinct_expected_outcomes", json!(outcomes.len()));
  run.set("schemas", json!(SCHEMAS.iter().map(|s| s.0).collect::<Vec<_>>()));
  run.set("feature_spellings", json!(FEATS.iter().map(|f| f.0.join(" ")).collect::<Vec<_>>()));
  run.rule = format!(
    "state = one process run of the cddl binary built from /repo's working tree. validate: 10 schema files (plain, .feature-guarded, generic rule first, group rule first, CSV rows, \
     rows with .feature, scalar, syntactically broken, no root type, missing file) x 6 --features spellings (none, -f a, --features b, -f a,b, -f a -f b, --features=c,a) x --ci on/off x every \
     ordered sequence of <= {} documents from a menu of 20 files (8 JSON, 8 CBOR, 4 CSV: valid, invalid, valid only without feature alpha / beta (a .feature-guarded '(tstr .size 1)' that the validators only look at when the feature is enabled), malformed, missing) with comma-joined and \
     repeated flags and --csv-header on/off when a CSV file is present x stdin absent or one of 10 contents (JSON / non-UTF-8 CBOR / UTF-8 texts that are malformed JSON but well-formed CBOR; with sequences of <= {} files). \
     Oracle: the library entry points called in-process with the same schema text, bytes, header flag and feature list; the tool must print a success line exactly for the documents the \
     library accepts, in processing order (with --ci up to the first failure), and with --ci exit non-zero exactly when a document fails, is missing or the schema does not compile. \
     compile-cddl: {} texts (multi-rule documents, all single-character deletions of 6 base documents, undefined reference, duplicate rule) with and without --ci, plus a missing file: \
     exit 0 with the 'is conformant' line exactly when cddl_from_str accepts the text.",
    tier.pick(2, 3),
    tier.pick(1, 3),
    texts.len()
  );
  run.finish()
}

fn judge_compile(bin: &Path, cdir: &Path, texts: &[String], x: usize) -> Option<Viol> {
  let (i, ci) = (x / 2, x % 2 == 1);
  let (name, text) = if i < texts.len() { (format!("t{i}.cddl"), Some(&texts[i])) } else { ("absent.cddl".to_string(), None) };
  let mut args: Vec<String> = vec![];
  if ci {
    args.push("--ci".into());
  }
  args.extend(["compile-cddl".to_string(), "-c".to_string(), format!("@/{name}")]);
  let obs = invoke(bin, cdir, &args, None);
  let accepted = match text {
    Some(t) => catch(|| cddl::cddl_from_str(t, false).is_ok()).unwrap_or(false),
    None => false,
  };
  let conformant = obs.log.contains("is conformant");
  let succeeded = obs.code == Some(0) && conformant;
  let case = json!({"args": args, "cddl": text});
  if succeeded != accepted {
    return Some(Viol {
      kind: "compile-cddl".into(),
      case,
      observed: format!("exit {:?}, conformant line {}; log: {}", obs.code, conformant, trunc(&obs.log.replace('\n', " | "))),
      expected: format!("success (exit 0 and 'is conformant') exactly when the parser accepts the file: parser accepts = {accepted}"),
      finding: None,
    });
  }
  // a rejected or missing file must make --ci fail
  if ci && !accepted && obs.code == Some(0) {
    return Some(Viol { kind: "compile-cddl-ci-exit".into(), case, observed: "exit 0".into(), expected: "non-zero exit with --ci for a file the parser rejects or that is missing".into(), finding: None });
  }
  None
}

pub fn replay(case: &serde_json::Value) -> Option<Viol> {
  let bin = build_cli().ok()?;
  let dir = workdir();
  let args: Vec<String> = case["args"].as_array()?.iter().filter_map(|a| a.as_str().map(|s| s.to_string())).collect();
  let r = if args.iter().any(|a| a == "compile-cddl") {
    let text = case["cddl"].as_str().map(|s| s.to_string());
    let texts: Vec<String> = text.into_iter().collect();
    let cdir = dir.join("compile");
    std::fs::create_dir_all(&cdir).unwrap();
    if let Some(t) = texts.first() {
      std::fs::write(cdir.join("t0.cddl"), t).unwrap();
    }
    let ci = args.iter().any(|a| a == "--ci");
    let x = if texts.is_empty() { 2 } else { 0 } + ci as usize;
    judge_compile(&bin, &cdir, &texts, x)
  } else {
    // rebuild the invocation from its arguments
    let docs = documents();
    let sins = stdins();
    let all = invocations(Tier::Thorough, docs.len(), sins.len(), &docs);
    let stdin_hex = case["stdin_hex"].as_str().map(|s| s.to_string());
    all
      .iter()
      .find(|inv| args_of(inv, &docs) == args && inv.stdin.map(|s| hex(&sins[s].1)) == stdin_hex)
      .and_then(|inv| judge(&bin, &dir, inv, &docs, &sins))
  };
  let _ = std::fs::remove_dir_all(&dir);
  r
}
