//! C07 — literals denote exactly the value the RFC assigns, or the document is rejected.
//! Independent reference decoders (integers in u128, decimal floats through a canonical
//! spelling, hex floats exactly, RFC 9682 text escapes with surrogate pairing, RFC 4648
//! base16 / base64 / base64url) judge every enumerated spelling; the AST value is read with
//! the shape walker at the syntactic position the literal was placed in.
use crate::core::*;
use crate::shape;
use serde_json::json;
use std::collections::BTreeMap;

/// what the reference says about a spelling
#[derive(Clone, Debug, PartialEq)]
pub enum Ref {
  /// a valid literal: node kind and label as the shape walker prints them
  Val(&'static str, String),
  /// a valid literal whose value the AST cannot hold (usize / isize / u64 / finite f64)
  Unrepresentable,
  /// not a literal of this class
  Invalid,
  /// the texts available offline do not settle it
  DontCare,
}

// ------------------------------------------------------------------ numbers

fn digits(s: &str, radix: u32) -> Option<u128> {
  if s.is_empty() || s.len() > 127 {
    return None;
  }
  u128::from_str_radix(s, radix).ok()
}

/// uint = DIGIT1 *DIGIT / "0x" 1*HEXDIG / "0b" 1*BINDIG / "0"   (case-insensitive)
fn ref_uint(s: &str) -> Option<u128> {
  let l = s.to_ascii_lowercase();
  if let Some(h) = l.strip_prefix("0x") {
    return if h.chars().all(|c| c.is_ascii_hexdigit()) { digits(h, 16) } else { None };
  }
  if let Some(b) = l.strip_prefix("0b") {
    return if b.chars().all(|c| c == '0' || c == '1') { digits(b, 2) } else { None };
  }
  if l == "0" {
    return Some(0);
  }
  if l.starts_with('0') || !l.chars().all(|c| c.is_ascii_digit()) {
    return None;
  }
  digits(&l, 10)
}

pub fn ref_number(s: &str) -> Ref {
  let neg = s.starts_with('-');
  let body = if neg { &s[1..] } else { s };
  if body.is_empty() {
    return Ref::Invalid;
  }
  // integers
  if let Some(v) = ref_uint(body) {
    return if neg {
      if v <= 1u128 << 63 {
        Ref::Val("int", (-(v as i128)).to_string())
      } else {
        Ref::Unrepresentable
      }
    } else if v <= u64::MAX as u128 {
      Ref::Val("uint", v.to_string())
    } else {
      Ref::Unrepresentable
    };
  }
  let l = body.to_ascii_lowercase();
  // hexfloat = ["-"] "0x" 1*HEXDIG ["." 1*HEXDIG] "p" exponent
  if let Some(h) = l.strip_prefix("0x") {
    if let Some((mant, exp)) = h.split_once('p') {
      let (ip, fp) = match mant.split_once('.') {
        Some((a, b)) => (a, Some(b)),
        None => (mant, None),
      };
      let hexok = |x: &str| !x.is_empty() && x.len() <= 14 && x.chars().all(|c| c.is_ascii_hexdigit());
      let e = exp.strip_prefix('+').or(exp.strip_prefix('-')).unwrap_or(exp);
      if hexok(ip) && fp.map(hexok).unwrap_or(true) && !e.is_empty() && e.len() <= 4 && e.chars().all(|c| c.is_ascii_digit()) {
        let m = u128::from_str_radix(&format!("{}{}", ip, fp.unwrap_or("")), 16).unwrap();
        let mut ex: i32 = e.parse().unwrap();
        if exp.starts_with('-') {
          ex = -ex;
        }
        ex -= 4 * fp.map(|f| f.len() as i32).unwrap_or(0);
        // exact when the mantissa fits 53 bits and 2^ex is a normal power
        if m < (1u128 << 53) && (-1000..=900).contains(&ex) {
          let v = (m as f64) * 2f64.powi(ex);
          let v = if neg { -v } else { v };
          return Ref::Val("float", shape::float_label(v));
        }
        return Ref::DontCare;
      }
      return Ref::Invalid;
    }
    // radix mantissa with decimal fraction/exponent ("0x1.8", "0b1e2"): no defined semantics
    if l.contains('.') {
      return Ref::DontCare;
    }
    return Ref::Invalid;
  }
  if l.starts_with("0b") {
    return if l.contains('.') || l.contains('e') { Ref::DontCare } else { Ref::Invalid };
  }
  // int ["." fraction] ["e" exponent], at least one of the two
  let (mant, exp) = match l.split_once('e') {
    Some((m, e)) => (m, Some(e)),
    None => (l.as_str(), None),
  };
  let (ip, fp) = match mant.split_once('.') {
    Some((a, b)) => (a, Some(b)),
    None => (mant, None),
  };
  if fp.is_none() && exp.is_none() {
    return Ref::Invalid;
  }
  let dec = |x: &str| !x.is_empty() && x.chars().all(|c| c.is_ascii_digit());
  let int_ok = ip == "0" || (dec(ip) && !ip.starts_with('0'));
  let exp_ok = exp.map(|e| dec(e.strip_prefix('+').or(e.strip_prefix('-')).unwrap_or(e))).unwrap_or(true);
  if !int_ok || !fp.map(dec).unwrap_or(true) || !exp_ok {
    return Ref::Invalid;
  }
  // canonical spelling -> correctly rounded double (std)
  let canon = format!("{}{}.{}e{}", if neg { "-" } else { "" }, ip, fp.unwrap_or("0"), exp.unwrap_or("0"));
  match canon.parse::<f64>() {
    Ok(v) if v.is_finite() => Ref::Val("float", shape::float_label(v)),
    Ok(_) => Ref::Unrepresentable,
    Err(_) => Ref::DontCare,
  }
}

// ------------------------------------------------------------------ text

/// one building block of a text literal: (source spelling, Some(code units / scalar) or None = invalid)
#[derive(Clone, Copy)]
pub struct Item {
  pub src: &'static str,
  /// Lit = these characters; Hi/Lo = a \uXXXX surrogate half; Bad = invalid escape
  pub kind: ItemKind,
}
#[derive(Clone, Copy, PartialEq)]
pub enum ItemKind {
  Lit(&'static str),
  Hi(u32),
  Lo(u32),
  Bad,
}

pub fn text_items() -> Vec<Item> {
  use ItemKind::*;
  let i = |src, kind| Item { src, kind };
  vec![
    i("a", Lit("a")),
    i("\\n", Lit("\n")),
    i("\\\"", Lit("\"")),
    i("\\\\", Lit("\\")),
    i("\\/", Lit("/")),
    i("\\t", Lit("\t")),
    i("\\u0041", Lit("A")),
    i("\\u00e9", Lit("é")),
    i("😀", Lit("😀")),
    i("é", Lit("é")),
    i("\\uD83D", Hi(0xD83D)),
    i("\\uDE00", Lo(0xDE00)),
    i("\\uD840", Hi(0xD840)),
    i("\\uDC00", Lo(0xDC00)),
    i("\\uDBFF", Hi(0xDBFF)),
    i("\\uDFFF", Lo(0xDFFF)),
    i("\\u{41}", Lit("A")),
    i("\\u{1F600}", Lit("😀")),
    i("\\u{10FFFF}", Lit("\u{10FFFF}")),
    i("\\u{0000041}", Lit("A")),
    i("\\u{D800}", Bad),
    i("\\u{110000}", Bad),
    i("\\u{DFFF}", Bad),
    // more hex digits than a code point has: the number is not reduced modulo 2^32 (or 2^64)
    i("\\u{100000041}", Bad),
    i("\\u{10000000000000041}", Bad),
    i("\\u{FFFFFFFF}", Bad),
    i("\\u{000000000041}", Lit("A")),
    i("';", Lit("';")),
  ]
}

/// RFC 9682 text value of a sequence of items (None = not a valid literal)
pub fn ref_text(items: &[Item]) -> Option<String> {
  let mut out = String::new();
  let mut k = 0;
  while k < items.len() {
    match items[k].kind {
      ItemKind::Lit(s) => out.push_str(s),
      ItemKind::Bad | ItemKind::Lo(_) => return None,
      ItemKind::Hi(h) => {
        let Some(ItemKind::Lo(l)) = items.get(k + 1).map(|x| x.kind) else {
          return None;
        };
        out.push(char::from_u32(0x10000 + ((h - 0xD800) << 10) + (l - 0xDC00))?);
        k += 1;
      }
    }
    k += 1;
  }
  Some(out)
}

// ------------------------------------------------------------------ byte strings

fn clean(s: &str) -> String {
  // whitespace and comments inside a prefixed byte string are ignored (RFC 8610 3.1)
  let mut out = String::new();
  let mut it = s.chars();
  while let Some(c) = it.next() {
    if c == ';' {
      for d in it.by_ref() {
        if d == '\n' {
          break;
        }
      }
    } else if !c.is_whitespace() {
      out.push(c);
    }
  }
  out
}

pub fn ref_hex(content: &str) -> Ref {
  let c = clean(content);
  if c.len() % 2 != 0 || !c.chars().all(|x| x.is_ascii_hexdigit()) {
    return Ref::Invalid;
  }
  let b: Vec<u8> = (0..c.len() / 2).map(|i| u8::from_str_radix(&c[2 * i..2 * i + 2], 16).unwrap()).collect();
  Ref::Val("bytes_b16", hex(&b))
}

pub fn ref_b64(content: &str) -> Ref {
  let c = clean(content);
  let classic = c.contains('+') || c.contains('/');
  let url = c.contains('-') || c.contains('_');
  if classic && url {
    return Ref::DontCare; // a literal drawing from both alphabets: RFC 8610 says "base64(url)", mixing is not addressed
  }
  let body = c.trim_end_matches('=');
  let pad = c.len() - body.len();
  if body.contains('=') {
    return Ref::Invalid;
  }
  let val = |ch: char| -> Option<u32> {
    Some(match ch {
      'A'..='Z' => ch as u32 - 'A' as u32,
      'a'..='z' => ch as u32 - 'a' as u32 + 26,
      '0'..='9' => ch as u32 - '0' as u32 + 52,
      '+' | '-' => 62,
      '/' | '_' => 63,
      _ => return None,
    })
  };
  let mut bits: Vec<u32> = vec![];
  for ch in body.chars() {
    match val(ch) {
      Some(v) => bits.push(v),
      None => return Ref::Invalid,
    }
  }
  let rem = bits.len() % 4;
  if rem == 1 {
    return Ref::Invalid;
  }
  // padding is optional; when present it must complete the quantum
  if pad > 0 && (rem == 0 || pad != 4 - rem) {
    return Ref::Invalid;
  }
  let mut out = vec![];
  for q in bits.chunks(4) {
    let mut acc = 0u32;
    for (i, v) in q.iter().enumerate() {
      acc |= v << (18 - 6 * i);
    }
    let n = match q.len() {
      4 => 3,
      3 => 2,
      _ => 1,
    };
    for i in 0..n {
      out.push((acc >> (16 - 8 * i)) as u8);
    }
    // non-zero trailing bits: RFC 4648 3.5 lets a decoder reject them or not
    let used = 8 * n;
    if q.len() < 4 && (acc << (8 + used)) != 0 && (acc & ((1 << (24 - used)) - 1)) != 0 {
      return Ref::DontCare;
    }
  }
  Ref::Val("bytes_b64", hex(&out))
}

// ------------------------------------------------------------------ positions

/// (template with the hole `@`, what the hole may hold)
#[derive(Clone, Copy, PartialEq)]
pub enum Holds {
  AnyLiteral,
  /// uint only, read as a bound / tag number (no kind prefix)
  Uint,
}
pub fn positions() -> Vec<(&'static str, Holds)> {
  vec![
    ("r = @", Holds::AnyLiteral),
    ("r = int / @", Holds::AnyLiteral),
    ("r = [@]", Holds::AnyLiteral),
    ("r = {a: @}", Holds::AnyLiteral),
    ("r = {@: int}", Holds::AnyLiteral),
    ("r = {@ => int}", Holds::AnyLiteral),
    ("r = {* @ ^ => int}", Holds::AnyLiteral),
    ("r = @..9", Holds::AnyLiteral),
    ("r = 0..@", Holds::AnyLiteral),
    ("r = 0...@", Holds::AnyLiteral),
    ("r = tstr .size @", Holds::AnyLiteral),
    ("r = int .eq @", Holds::AnyLiteral),
    ("r = m<@>", Holds::AnyLiteral),
    ("r = #6.1(@)", Holds::AnyLiteral),
    ("r = [@* int]", Holds::Uint),
    ("r = [*@ int]", Holds::Uint),
    ("r = [1*@ int]", Holds::Uint),
    ("r = #6.@(int)", Holds::Uint),
    ("r = #7.@", Holds::Uint),
    ("r = #1.@", Holds::Uint),
  ]
}

fn parse_shape(text: &str) -> Result<Result<String, String>, String> {
  catch(|| cddl::cddl_from_str(text, false).map(|a| shape::cddl(&a).shape()))
}

/// expected shape of `template` with the hole holding a literal of (kind, label)
fn expected_shape(template: &str, holds: Holds, kind: &str, label: &str) -> Option<String> {
  // probe with the placeholder 7 (a uint) to learn where the literal lands
  let probe = parse_shape(&format!("{}\n", template.replace('@', "7"))).ok()?.ok()?;
  let rep = |pat: &str, with: String| -> Option<String> {
    if probe.matches(pat).count() == 1 {
      Some(probe.replacen(pat, &with, 1))
    } else {
      None
    }
  };
  match holds {
    Holds::Uint => {
      if kind != "uint" {
        return None;
      }
      rep("occur<7*>", format!("occur<{label}*>"))
        .or_else(|| rep("occur<*7>", format!("occur<*{label}>")))
        .or_else(|| rep("occur<1*7>", format!("occur<1*{label}>")))
        .or_else(|| rep("tag<.7>", format!("tag<.{label}>")))
        .or_else(|| rep("major<7.7>", format!("major<7.{label}>")))
        .or_else(|| rep("major<1.7>", format!("major<1.{label}>")))
    }
    Holds::AnyLiteral => {
      // the shape walker prints a node with an empty label without "<>"
      let node = if label.is_empty() { kind.to_string() } else { format!("{kind}<{label}>") };
      rep("key_value<uint:7>", format!("key_value<{kind}:{label}>")).or_else(|| rep("uint<7>", node))
    }
  }
}

pub struct Case {
  pub template: &'static str,
  pub holds: Holds,
  pub spelling: String,
  pub reference: Ref,
}

pub fn check(c: &Case) -> (Option<Viol>, &'static str) {
  let text = format!("{}\n", c.template.replace('@', &c.spelling));
  let mk = |kind: &str, observed: String, expected: String| Viol {
    kind: kind.into(),
    case: json!({"cddl": text, "template": c.template, "spelling": c.spelling}),
    observed,
    expected,
    finding: None,
  };
  let got = match parse_shape(&text) {
    Err(p) => return (Some(mk("panic", format!("PANIC {p}"), "Ok or Err".into())), "panic"),
    Ok(r) => r,
  };
  match (&c.reference, got) {
    (Ref::DontCare, _) => (None, "dont_care"),
    (Ref::Val(k, l), Ok(sh)) => {
      // accepted: the AST must hold exactly the reference value at the hole
      match expected_shape(c.template, c.holds, k, l) {
        None => (None, "position_cannot_hold_this_kind"),
        Some(exp) if exp == sh => (None, "value_ok"),
        Some(exp) => (
          Some(mk("wrong-value", crate::c06::first_diff(&exp, &sh), format!("the literal denotes {k}<{l}>"))),
          "wrong_value",
        ),
      }
    }
    (Ref::Val(..), Err(_)) => (None, "valid_but_rejected_C03"),
    (Ref::Unrepresentable | Ref::Invalid, Err(_)) => (None, "rejected_ok"),
    (r @ (Ref::Unrepresentable | Ref::Invalid), Ok(sh)) => {
      // accepted although the spelling is not a (representable) literal. That is only a
      // violation of C07 if the parser read the WHOLE spelling as one literal at the hole:
      // compare with the probe shape - same structure with some literal node in place of the probe.
      let probe = parse_shape(&format!("{}\n", c.template.replace('@', "7"))).ok().and_then(|x| x.ok()).unwrap_or_default();
      if same_structure_with_one_literal(&probe, &sh) {
        (
          Some(mk(
            if *r == Ref::Unrepresentable { "unrepresentable-accepted" } else { "invalid-accepted" },
            format!("accepted as {}", trunc(&sh)),
            format!("a parse error: the reference decoder says {:?}", r),
          )),
          "bad_accepted",
        )
      } else {
        (None, "accepted_as_something_else")
      }
    }
  }
}

/// `got` equals `probe` except that the single placeholder node (uint<7>, uint:7, occur bound,
/// tag / major number) is replaced by exactly one other literal token
fn same_structure_with_one_literal(probe: &str, got: &str) -> bool {
  // common prefix / suffix; the differing middle must be a single literal node or number
  let pb = probe.as_bytes();
  let gb = got.as_bytes();
  let mut i = 0;
  while i < pb.len() && i < gb.len() && pb[i] == gb[i] {
    i += 1;
  }
  let mut j = 0;
  while j < pb.len() - i && j < gb.len() - i && pb[pb.len() - 1 - j] == gb[gb.len() - 1 - j] {
    j += 1;
  }
  let mid_p = &probe[i..probe.len() - j];
  let mut lo = i;
  while !got.is_char_boundary(lo) {
    lo -= 1;
  }
  let mut hi = got.len() - j;
  while !got.is_char_boundary(hi) {
    hi += 1;
  }
  let mid_g = &got[lo..hi];
  // the probe's middle is (part of) "uint<7>" / "7"; the other side must not introduce structure
  mid_p.len() <= 7 && !mid_g.contains('(') && !mid_g.contains(' ') && !mid_g.contains(')')
}

// ------------------------------------------------------------------ spaces

fn strings_over(alpha: &[char], max: usize, out: &mut Vec<String>) {
  let mut cur: Vec<String> = vec![String::new()];
  for _ in 0..max {
    let mut next = vec![];
    for s in &cur {
      for &c in alpha {
        let mut t = s.clone();
        t.push(c);
        next.push(t);
      }
    }
    out.extend(next.iter().cloned());
    cur = next;
  }
}

pub fn number_spellings(tier: Tier) -> Vec<String> {
  let mut out = vec![];
  strings_over(&['0', '1', '9', 'x', 'b', 'a', 'F', '-', '.', 'e', 'p', '+'], tier.pick(5, 6), &mut out);
  // a spelling over this alphabet that is an identifier (a, b-e, ...) is not a number attempt
  out.retain(|s| s.starts_with(|c: char| c.is_ascii_digit() || c == '-' || c == '.' || c == '+'));
  out
}

pub fn boundary_numbers() -> Vec<String> {
  let mut out = vec![];
  let vals: [u128; 12] = [
    0,
    1,
    255,
    (1 << 32) - 1,
    1 << 32,
    (1 << 63) - 1,
    1 << 63,
    (1 << 63) + 1,
    u64::MAX as u128 - 1,
    u64::MAX as u128,
    u64::MAX as u128 + 1,
    u128::MAX >> 1,
  ];
  for v in vals {
    for neg in ["", "-"] {
      out.push(format!("{neg}{v}"));
      out.push(format!("{neg}0x{v:x}"));
      out.push(format!("{neg}0X{v:X}"));
      out.push(format!("{neg}0b{v:b}"));
      out.push(format!("{neg}0x{:x}", v).replace('f', "F").replace("0x", "0x0"));
    }
  }
  for s in [
    "1e308", "1e309", "-1e309", "1e-400", "1.7976931348623157e308", "1.7976931348623159e308", "0.1", "0.30000000000000004", "1E5", "1e+5", "1e-5", "1.05e05", "123456789012345678901234567890.0",
    "0x1p-1074", "0x1.fffffffffffffp1023", "0x1p1024", "-0x1P4", "0X1.8p1", "0x.8p1", "0x1p", "1.", ".5", "1e", "01", "00", "-00", "0x", "0b2", "0b", "1_0", "+1", "--1", "-", "0x1.8", "0b1e2", "1.5.5",
  ] {
    out.push(s.to_string());
  }
  out
}

#[derive(Default)]
struct Acc {
  v: VAcc,
  n: u64,
  classes: BTreeMap<&'static str, u64>,
  samples: Vec<serde_json::Value>,
}

fn sweep(run: &mut Run, cases: &[Case], label: &str) {
  let accs = par_sweep(cases.len(), 256, Acc::default, |i, a: &mut Acc| {
    let (v, class) = check(&cases[i]);
    a.n += 1;
    *a.classes.entry(class).or_insert(0) += 1;
    if let Some(v) = v {
      a.v.push(v);
    } else if class == "value_ok" && a.samples.is_empty() && i % 1301 == 17 {
      a.samples.push(json!({"cddl": cases[i].template.replace('@', &cases[i].spelling), "reference": format!("{:?}", cases[i].reference)}));
    }
  });
  let mut cl: BTreeMap<&'static str, u64> = BTreeMap::new();
  let mut n = 0;
  for a in accs {
    run.absorb(a.v);
    n += a.n;
    for (k, v) in a.classes {
      *cl.entry(k).or_insert(0) += v;
    }
    for s in a.samples {
      run.sample(s);
    }
  }
  run.states += n;
  run.transitions += n;
  run.traces += n;
  run.nontrivial += cl.get("value_ok").copied().unwrap_or(0) + cl.get("rejected_ok").copied().unwrap_or(0);
  run.set(&format!("family_{label}"), json!({"cases": n, "classes": cl}));
}

pub fn run(tier: Tier) -> i32 {
  quiet_panics();
  let mut run = Run::new("C07", tier, "model_checking");
  let pos = positions();
  // (1) every number spelling of bounded length in the plain type position
  let nums = number_spellings(tier);
  let cases: Vec<Case> = nums.iter().map(|s| Case { template: "r = @", holds: Holds::AnyLiteral, spelling: s.clone(), reference: ref_number(s) }).collect();
  sweep(&mut run, &cases, "numbers_all_spellings");
  // (2) boundary numbers and every valid short spelling x every position
  let mut sel: Vec<String> = boundary_numbers();
  sel.extend(nums.iter().filter(|s| s.len() <= tier.pick(3, 4) && matches!(ref_number(s), Ref::Val(..))).cloned());
  let mut cases = vec![];
  for (t, h) in &pos {
    for s in &sel {
      cases.push(Case { template: t, holds: *h, spelling: s.clone(), reference: ref_number(s) });
    }
  }
  sweep(&mut run, &cases, "numbers_in_positions");
  // (3) text: every sequence of <= 3 escape items x text-capable positions
  let items = text_items();
  let mut seqs: Vec<Vec<Item>> = vec![vec![]];
  let mut cur: Vec<Vec<Item>> = vec![vec![]];
  for _ in 0..tier.pick(3, 4) {
    let mut next = vec![];
    for s in &cur {
      for it in &items {
        let mut t = s.clone();
        t.push(*it);
        next.push(t);
      }
    }
    seqs.extend(next.iter().cloned());
    cur = next;
  }
  let text_pos = ["r = @", "r = {@: int}", "r = {@ => int}", "r = tstr .eq @", "r = [* @]", "r = m<@>"];
  let mut cases = vec![];
  for (pi, t) in text_pos.iter().enumerate() {
    for (si, s) in seqs.iter().enumerate() {
      // all positions for sequences of <= 2 items, the plain position for all
      if pi > 0 && s.len() > 2 && (tier == Tier::Quick || si % 7 != pi) {
        continue;
      }
      let src: String = s.iter().map(|i| i.src).collect();
      let reference = match ref_text(s) {
        Some(v) => Ref::Val("text", format!("{:?}", v)),
        None => Ref::Invalid,
      };
      cases.push(Case { template: t, holds: Holds::AnyLiteral, spelling: format!("\"{src}\""), reference });
    }
  }
  sweep(&mut run, &cases, "text_escapes");
  // (4) byte strings
  let hex_items = ["01", "aF", "Ff", "0", "a", "g", "+", "-", "x", " ", "\n", ";c\n", "; 0f\n", "\t"];
  let b64_items = ["AQ", "AQI", "AQID", "A", "-_", "+/", "-w", "_w", "=", "==", " ", "\n", ";c\n", "!", "B", "R"];
  let mut cases = vec![];
  let mut gen = |items: &[&str], n: usize, f: &dyn Fn(&str) -> (String, Ref)| {
    let mut cur: Vec<String> = vec![String::new()];
    let mut all: Vec<String> = vec![String::new()];
    for _ in 0..n {
      let mut next = vec![];
      for s in &cur {
        for it in items {
          next.push(format!("{s}{it}"));
        }
      }
      all.extend(next.iter().cloned());
      cur = next;
    }
    for s in all {
      let (sp, r) = f(&s);
      for t in ["r = @", "r = {@ => int}", "r = bstr .eq @"] {
        cases.push(Case { template: t, holds: Holds::AnyLiteral, spelling: sp.clone(), reference: r.clone() });
      }
    }
  };
  gen(&hex_items, tier.pick(3, 4), &|s| (format!("h'{s}'"), ref_hex(s)));
  gen(&b64_items, tier.pick(3, 4), &|s| (format!("b64'{s}'"), ref_b64(s)));
  gen(&["a", "é", " ", "\"", ";", "\n", "0"], 3, &|s| (format!("'{s}'"), Ref::Val("bytes_utf8", hex(s.as_bytes()))));
  sweep(&mut run, &cases, "byte_strings");
  run.evaluations = run.states;
  run.rule = "state = (syntactic position, literal spelling). Numbers: every string of length <= 5 (6 thorough) over {0 1 9 x b a F - . e p +} that starts like a number, in the \
    plain type position; boundary families (0, 2^32, 2^63-1, 2^63, 2^64-1, 2^64, 2^127 in decimal / hex both cases / binary / zero-padded hex, both signs; float overflow, \
    underflow, hex-float edge cases, malformed forms) and every valid short spelling in each of 20 positions (type, choice arm, array entry, map value, 'v:' key, 'v =>' key, cut \
    key, both range bounds, control argument, generic argument, tag content, occurrence lower / upper bound, tag number, simple-value and major-type number). Text: every sequence \
    of <= 3 (4) items over 28 escape building blocks (plain, every single-character escape, \\uXXXX, surrogate pairs incl. planes 2 and 16, lone and reversed surrogates, \\u{...} \
    incl. leading zeros, surrogate and > 10FFFF scalars) in 6 positions. Byte strings: every sequence of <= 3 (4) items over hex / base64 / base64url building blocks incl. \
    whitespace, comments, padding variants and invalid characters, and plain '...' strings, in 3 positions. Reference decoders (module c07) give value / unrepresentable / invalid / \
    don't-care; oracle: accepted => the AST node at the hole (read with the shape walker) equals the reference value; invalid or unrepresentable => not accepted as a literal at the \
    hole. transition = one (position, spelling) pairing. non-trivial = states that ended in 'value equal' or 'rejected as required'."
    .into();
  run.assumptions = vec![
    "decimal floats: the reference is std's correctly rounded parse of a canonical respelling (sign, integer, fraction, exponent re-assembled by the harness)".into(),
    "escapes inside unprefixed '...' byte strings, radix mantissas with decimal fraction/exponent, base64 with non-zero trailing bits or mixed alphabets are don't-care".into(),
    "a valid literal that the parser rejects is C03's direction and is only counted here".into(),
  ];
  run.finish()
}

pub fn replay(case: &serde_json::Value) -> Option<Viol> {
  let template = case["template"].as_str()?;
  let spelling = case["spelling"].as_str()?.to_string();
  let (t, h) = positions().into_iter().find(|(t, _)| *t == template).or_else(|| Some((Box::leak(template.to_string().into_boxed_str()), Holds::AnyLiteral)))?;
  let reference = if spelling.starts_with('"') {
    // re-derive from the item alphabet by greedy longest match
    let items = text_items();
    let mut rest = &spelling[1..spelling.len() - 1];
    let mut seq = vec![];
    while !rest.is_empty() {
      let it = items.iter().filter(|i| rest.starts_with(i.src)).max_by_key(|i| i.src.len())?;
      seq.push(*it);
      rest = &rest[it.src.len()..];
    }
    match ref_text(&seq) {
      Some(v) => Ref::Val("text", format!("{:?}", v)),
      None => Ref::Invalid,
    }
  } else if let Some(c) = spelling.strip_prefix("h'") {
    ref_hex(&c[..c.len() - 1])
  } else if let Some(c) = spelling.strip_prefix("b64'") {
    ref_b64(&c[..c.len() - 1])
  } else if spelling.starts_with('\'') {
    Ref::Val("bytes_utf8", hex(spelling[1..spelling.len() - 1].as_bytes()))
  } else {
    ref_number(&spelling)
  };
  check(&Case { template: t, holds: h, spelling, reference }).0
}
