//! Shared infrastructure: parallel exhaustive sweep, evidence writer, known-finding
//! attribution, replay artefacts, exit-code contract.
use serde_json::{json, Map, Value as J};
use std::collections::BTreeMap;
use std::sync::atomic::{AtomicUsize, Ordering};
use std::sync::Mutex;
use std::time::Instant;

pub const VERIF: &str = "/verif";

#[derive(Clone, Copy, PartialEq, Eq, Debug)]
pub enum Tier {
  Quick,
  Thorough,
}
impl Tier {
  pub fn name(self) -> &'static str {
    match self {
      Tier::Quick => "quick",
      Tier::Thorough => "thorough",
    }
  }
  pub fn pick<T>(self, q: T, t: T) -> T {
    match self {
      Tier::Quick => q,
      Tier::Thorough => t,
    }
  }
}

pub fn ncpu() -> usize {
  std::env::var("VERIF_THREADS")
    .ok()
    .and_then(|s| s.parse().ok())
    .unwrap_or_else(|| std::thread::available_parallelism().map(|n| n.get()).unwrap_or(8))
}

/// Run `f(i)` for every i in 0..n on all cores (dynamic chunks); the per-thread
/// accumulators are merged in thread order. Which states are visited does not
/// depend on scheduling: every index is visited exactly once.
pub fn par_sweep<A: Send, F: Fn(usize, &mut A) + Sync>(
  n: usize,
  chunk: usize,
  mk: impl Fn() -> A + Sync,
  f: F,
) -> Vec<A> {
  let next = AtomicUsize::new(0);
  let threads = ncpu().min(n.max(1));
  let out: Mutex<Vec<(usize, A)>> = Mutex::new(Vec::new());
  std::thread::scope(|s| {
    for t in 0..threads {
      let next = &next;
      let f = &f;
      let mk = &mk;
      let out = &out;
      std::thread::Builder::new()
        .stack_size(256 << 20)
        .spawn_scoped(s, move || {
          let mut acc = mk();
          loop {
            let lo = next.fetch_add(chunk, Ordering::Relaxed);
            if lo >= n {
              break;
            }
            for i in lo..(lo + chunk).min(n) {
              f(i, &mut acc);
            }
          }
          out.lock().unwrap().push((t, acc));
        })
        .unwrap();
    }
  });
  let mut v = out.into_inner().unwrap();
  v.sort_by_key(|x| x.0);
  v.into_iter().map(|x| x.1).collect()
}

/// Silence the default panic hook (we catch panics and report them ourselves).
pub fn quiet_panics() {
  std::panic::set_hook(Box::new(|i| { if std::env::var("VERIF_PANICS").is_ok() { eprintln!("{i}"); } }));
}

pub fn catch<T>(f: impl FnOnce() -> T) -> Result<T, String> {
  std::panic::catch_unwind(std::panic::AssertUnwindSafe(f)).map_err(|e| {
    if let Some(s) = e.downcast_ref::<&str>() {
      s.to_string()
    } else if let Some(s) = e.downcast_ref::<String>() {
      s.clone()
    } else {
      "panic".to_string()
    }
  })
}

#[derive(Clone, Debug)]
pub struct Viol {
  /// check kind inside the property (dispatch key for replay)
  pub kind: String,
  /// exact inputs (text / hex) so the case can be re-run without the explorer
  pub case: J,
  pub observed: String,
  pub expected: String,
  /// id of the known-finding pattern this case matches (None = unattributed)
  pub finding: Option<String>,
}

#[derive(Clone, Debug)]
pub struct Finding {
  pub property: String,
  pub id: String,
  pub status: String, // "open" | "fixed"
  pub what: String,
  pub raw: J,
}

pub fn load_findings(prop: &str) -> Vec<Finding> {
  let p = format!("{}/known_findings.jsonl", VERIF);
  let mut v = vec![];
  if let Ok(s) = std::fs::read_to_string(&p) {
    for l in s.lines() {
      let l = l.trim();
      if l.is_empty() || l.starts_with('#') {
        continue;
      }
      let j: J = match serde_json::from_str(l) {
        Ok(j) => j,
        Err(e) => {
          eprintln!("ENGINE-ERROR bad known_findings line: {e}");
          std::process::exit(2)
        }
      };
      if j["property"] == prop {
        v.push(Finding {
          property: prop.to_string(),
          id: j["id"].as_str().unwrap_or("").to_string(),
          status: j["status"].as_str().unwrap_or("open").to_string(),
          what: j["what"].as_str().unwrap_or("").to_string(),
          raw: j,
        });
      }
    }
  }
  v
}

pub struct Run {
  pub prop: String,
  pub tier: Tier,
  pub level: &'static str,
  pub start: Instant,
  pub seed: i64,
  pub evaluations: u64,
  pub states: u64,
  pub transitions: u64,
  pub traces: u64,
  pub nontrivial: u64,
  pub rule: String,
  pub exhaustive: bool,
  pub samples: Vec<J>,
  pub viols: Vec<Viol>,
  /// total number of violating states per finding id (attributed)
  pub attributed: BTreeMap<String, u64>,
  pub unattributed: u64,
  pub extra: Map<String, J>,
  pub assumptions: Vec<String>,
  pub notes: Vec<String>,
  /// when set, evidence is written to this property's file instead (sub-run)
  pub max_keep: usize,
}

impl Run {
  pub fn new(prop: &str, tier: Tier, level: &'static str) -> Run {
    Run {
      prop: prop.to_string(),
      tier,
      level,
      start: Instant::now(),
      seed: std::env::var("VERIF_SEED").ok().and_then(|s| s.parse().ok()).unwrap_or(0),
      evaluations: 0,
      states: 0,
      transitions: 0,
      traces: 0,
      nontrivial: 0,
      rule: String::new(),
      exhaustive: true,
      samples: vec![],
      viols: vec![],
      attributed: BTreeMap::new(),
      unattributed: 0,
      extra: Map::new(),
      assumptions: vec![],
      notes: vec![],
      max_keep: 40,
    }
  }
  pub fn sample(&mut self, j: J) {
    if self.samples.len() < 12 {
      self.samples.push(j);
    }
  }
  /// Record a violating state. `finding` = pattern id this state matches, if any.
  pub fn viol(&mut self, v: Viol) {
    dump_viol(&v);
    match &v.finding {
      Some(f) => {
        let c = self.attributed.entry(f.clone()).or_insert(0);
        *c += 1;
        // keep first witness per finding
        if *c == 1 {
          self.viols.push(v);
        }
      }
      None => {
        self.unattributed += 1;
        if self.viols.iter().filter(|x| x.finding.is_none()).count() < self.max_keep {
          self.viols.push(v);
        }
      }
    }
  }
  pub fn merge_viols(&mut self, vs: Vec<Viol>) {
    for v in vs {
      self.viol(v);
    }
  }
  pub fn set(&mut self, k: &str, v: J) {
    self.extra.insert(k.to_string(), v);
  }
  pub fn add(&mut self, k: &str, n: u64) {
    let cur = self.extra.get(k).and_then(|x| x.as_u64()).unwrap_or(0);
    self.extra.insert(k.to_string(), json!(cur + n));
  }

  /// Write evidence, print KNOWN-FINDING / VIOLATION lines, return exit code.
  pub fn finish(mut self) -> i32 {
    statelist::flush();
    let findings = load_findings(&self.prop);
    let open: BTreeMap<String, &Finding> =
      findings.iter().filter(|f| f.status == "open").map(|f| (f.id.clone(), f)).collect();
    let mut real: Vec<&Viol> = vec![];
    let mut known_lines = vec![];
    for v in &self.viols {
      match &v.finding {
        Some(f) if open.contains_key(f) => {}
        _ => real.push(v),
      }
    }
    for (fid, n) in &self.attributed {
      if let Some(f) = open.get(fid) {
        known_lines.push(format!(
          "KNOWN-FINDING: property={} {} [{}; {} states in this run]",
          self.prop, f.what, fid, n
        ));
      }
    }
    for f in open.values() {
      if !self.attributed.contains_key(&f.id) {
        self.notes.push(format!("listed finding {} did not reproduce in this run's space", f.id));
      }
    }
    let nviol: u64 = self.unattributed
      + self.attributed.iter().filter(|(k, _)| !open.contains_key(*k)).map(|(_, n)| *n).sum::<u64>();
    let dir = format!("{}/replays/{}", VERIF, self.prop);
    let _ = std::fs::create_dir_all(&dir);
    let mut replay_paths = vec![];
    for (i, v) in real.iter().enumerate() {
      let p = format!("{}/{}-{}.json", dir, self.tier.name(), i);
      let j = json!({"property": self.prop, "kind": v.kind, "case": v.case, "observed": v.observed,
        "expected": v.expected, "pattern": v.finding});
      let _ = std::fs::write(&p, serde_json::to_string_pretty(&j).unwrap());
      replay_paths.push(p);
    }
    let mut cov = Map::new();
    cov.insert("evaluations".into(), json!(self.evaluations.max(self.states)));
    cov.insert("distinct_nontrivial".into(), json!(self.nontrivial));
    cov.insert("rule".into(), json!(self.rule));
    cov.insert("samples".into(), J::Array(self.samples.clone()));
    if self.level == "model_checking" {
      cov.insert("states".into(), json!(self.states));
      cov.insert("transitions".into(), json!(self.transitions));
      cov.insert("traces_validated_against_impl".into(), json!(self.traces));
    } else if self.states > 0 {
      cov.insert("states".into(), json!(self.states));
      cov.insert("transitions".into(), json!(self.transitions));
    }
    cov.insert("exhaustive".into(), json!(self.exhaustive));
    cov.insert(
      "attributed_to_known_findings".into(),
      json!(self.attributed.iter().filter(|(k, _)| open.contains_key(*k)).collect::<BTreeMap<_, _>>()),
    );
    cov.insert("notes".into(), json!(self.notes));
    for (k, v) in self.extra.iter() {
      cov.insert(k.clone(), v.clone());
    }
    let ev = json!({
      "property_id": self.prop, "tier": self.tier.name(), "seed": self.seed, "level": self.level,
      "coverage": J::Object(cov), "assumptions": self.assumptions,
      "wall_s": self.start.elapsed().as_secs_f64(), "violations": nviol,
    });
    let evp = format!("{}/evidence/{}.json", VERIF, self.prop);
    let _ = std::fs::create_dir_all(format!("{}/evidence", VERIF));
    if let Err(e) = std::fs::write(&evp, serde_json::to_string_pretty(&ev).unwrap()) {
      println!("ENGINE-ERROR cannot write evidence: {e}");
      return 2;
    }
    for l in &known_lines {
      println!("{l}");
    }
    println!(
      "{} {}: states={} transitions={} evaluations={} nontrivial={} exhaustive={} violations={} wall={:.1}s",
      self.prop,
      self.tier.name(),
      self.states,
      self.transitions,
      self.evaluations,
      self.nontrivial,
      self.exhaustive,
      nviol,
      self.start.elapsed().as_secs_f64()
    );
    if !real.is_empty() {
      for (v, p) in real.iter().zip(&replay_paths).take(8) {
        println!(
          "VIOLATION property={} replay={}  # {} observed={} expected={} case={}",
          self.prop,
          p,
          v.kind,
          trunc(&v.observed),
          trunc(&v.expected),
          trunc(&v.case.to_string())
        );
      }
      if nviol as usize > 8 {
        println!("({} violating states in total; {} replay files written under {})", nviol, real.len(), dir);
      }
      return 1;
    }
    0
  }
}

pub fn trunc(s: &str) -> String {
  if s.chars().count() > 300 {
    let t: String = s.chars().take(300).collect();
    format!("{t}…")
  } else {
    s.to_string()
  }
}

pub fn hex(b: &[u8]) -> String {
  b.iter().map(|x| format!("{:02x}", x)).collect()
}
pub fn unhex(s: &str) -> Vec<u8> {
  (0..s.len() / 2).map(|i| u8::from_str_radix(&s[2 * i..2 * i + 2], 16).unwrap()).collect()
}

/// Per-thread violation accumulator (first witness per finding pattern, bounded
/// list of unattributed ones, exact counts of both).
#[derive(Default)]
pub struct VAcc {
  pub viols: Vec<Viol>,
  pub counts: BTreeMap<String, u64>,
  pub unattr: u64,
}
pub fn dump_viol(v: &Viol) {
  if let Ok(p) = std::env::var("VERIF_DUMP") {
    use std::io::Write;
    static LOCK: Mutex<()> = Mutex::new(());
    let _g = LOCK.lock().unwrap();
    if let Ok(mut f) = std::fs::OpenOptions::new().create(true).append(true).open(p) {
      let _ = writeln!(f, "{}", json!({"kind": v.kind, "case": v.case, "observed": v.observed, "expected": v.expected, "finding": v.finding}));
    }
  }
}
impl VAcc {
  pub fn push(&mut self, v: Viol) {
    dump_viol(&v);
    match &v.finding {
      Some(f) => {
        let c = self.counts.entry(f.clone()).or_insert(0);
        *c += 1;
        if *c == 1 {
          self.viols.push(v);
        }
      }
      None => {
        self.unattr += 1;
        if self.viols.iter().filter(|x| x.finding.is_none()).count() < 30 {
          self.viols.push(v);
        }
      }
    }
  }
}
impl Run {
  pub fn absorb(&mut self, a: VAcc) {
    for v in a.viols {
      if v.finding.is_none() {
        if self.viols.iter().filter(|x| x.finding.is_none()).count() < self.max_keep {
          self.viols.push(v);
        }
      } else if !self.viols.iter().any(|x| x.finding == v.finding) {
        self.viols.push(v);
      }
    }
    for (k, c) in a.counts {
      *self.attributed.entry(k).or_insert(0) += c;
    }
    self.unattributed += a.unattr;
  }
}


/// Committed state lists that pin a recorded finding to the exact inputs on which it was
/// observed (`/verif/known/<finding id>.states`, one 64-bit FNV-1a key per line). A check
/// only reads them; `VERIF_RECORD=<dir>` (manual operation, never in a registered command)
/// makes candidate states be collected and written to <dir> instead.
pub mod statelist {
  use std::collections::{BTreeMap, BTreeSet, HashSet};
  use std::sync::{Mutex, OnceLock};
  pub fn key(parts: &[&str]) -> u64 {
    let mut h: u64 = 0xcbf29ce484222325;
    for p in parts {
      for b in p.bytes().chain([0u8]) {
        h ^= b as u64;
        h = h.wrapping_mul(0x100000001b3);
      }
    }
    h
  }
  static LISTS: OnceLock<Mutex<BTreeMap<String, &'static HashSet<u64>>>> = OnceLock::new();
  static REC: Mutex<BTreeMap<String, BTreeSet<u64>>> = Mutex::new(BTreeMap::new());
  pub fn recording() -> bool {
    static R: OnceLock<bool> = OnceLock::new();
    *R.get_or_init(|| std::env::var("VERIF_RECORD").is_ok())
  }
  fn list(id: &str) -> &'static HashSet<u64> {
    let m = LISTS.get_or_init(|| Mutex::new(BTreeMap::new()));
    let mut g = m.lock().unwrap();
    if let Some(l) = g.get(id) {
      return l;
    }
    let p = format!("{}/known/{}.states", super::VERIF, id);
    let set: HashSet<u64> =
      std::fs::read_to_string(p).unwrap_or_default().lines().filter_map(|l| u64::from_str_radix(l.trim(), 16).ok()).collect();
    let l: &'static HashSet<u64> = Box::leak(Box::new(set));
    g.insert(id.to_string(), l);
    l
  }
  /// is the candidate state on the committed list of finding `id`? (recording mode: collect it, answer yes)
  pub fn listed(id: &str, k: u64) -> bool {
    if recording() {
      REC.lock().unwrap().entry(id.to_string()).or_default().insert(k);
      return true;
    }
    list(id).contains(&k)
  }
  pub fn flush() {
    if let Ok(dir) = std::env::var("VERIF_RECORD") {
      let _ = std::fs::create_dir_all(&dir);
      for (id, ks) in REC.lock().unwrap().iter() {
        let body: String = ks.iter().map(|k| format!("{:016x}\n", k)).collect();
        let _ = std::fs::write(format!("{dir}/{id}.states"), body);
        eprintln!("recorded {} states for {id}", ks.len());
      }
    }
  }
}


/// Redirect this process' stderr to /dev/null until the guard is dropped (the crate's
/// string entry points print parser diagnostics to stderr).
pub struct StderrGuard(i32);
pub fn silence_stderr() -> StderrGuard {
  unsafe {
    let saved = libc::dup(2);
    let nul = libc::open(b"/dev/null\0".as_ptr() as *const libc::c_char, libc::O_WRONLY);
    if saved >= 0 && nul >= 0 {
      libc::dup2(nul, 2);
      libc::close(nul);
    }
    StderrGuard(saved)
  }
}
impl Drop for StderrGuard {
  fn drop(&mut self) {
    unsafe {
      if self.0 >= 0 {
        libc::dup2(self.0, 2);
        libc::close(self.0);
      }
    }
  }
}
