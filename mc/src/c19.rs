//! C19 — optional cargo features are orthogonal.
//! state = one feature combination (a subset of the 8 documented optional features, with std).
//! For every state the driver program /verif/c19drv is built against /repo with exactly that
//! combination (a combination that does not build is a violation), run on a fixed input file,
//! and every observation it prints (parse acceptance, AST without the fields a feature adds,
//! formatted text, JSON / CBOR / CSV verdicts) is compared with the observation of the
//! all-features build wherever both builds provide the operation and the input does not use
//! functionality one of them lacks.
use crate::core::*;
use crate::docs::*;
use crate::space::*;
use crate::syn::*;
use crate::terms::*;
use serde_json::json;
use std::collections::BTreeMap;
use std::process::Command;

pub const FEATURES: [&str; 8] = ["ast-span", "ast-comments", "ast-parent", "json", "cbor", "csv-validate", "additional-controls", "freezer"];
pub const WORK: &str = "/verif/mc/target-c19";
const ALL: u32 = 0xff;

fn feats(mask: u32) -> Vec<&'static str> {
  (0..8).filter(|i| mask >> i & 1 == 1).map(|i| FEATURES[i]).collect()
}
/// what a combination really enables (csv-validate implies json)
fn effective(mask: u32) -> u32 {
  if mask >> 5 & 1 == 1 {
    mask | 1 << 3
  } else {
    mask
  }
}
fn has(mask: u32, f: &str) -> bool {
  let i = FEATURES.iter().position(|x| *x == f).unwrap();
  effective(mask) >> i & 1 == 1
}

/// quick tier: a covering array of strength 2 — every pair of features occurs in all four on/off
/// combinations (row 0 = nothing; in rows 1-5 feature k is on in the rows of the k-th 3-subset of 5)
pub fn pairwise() -> Vec<u32> {
  let mut subsets = vec![];
  for a in 0..5 {
    for b in a + 1..5 {
      for c in b + 1..5 {
        subsets.push([a, b, c]);
      }
    }
  }
  let mut rows = vec![0u32; 6];
  for (k, s) in subsets.iter().take(8).enumerate() {
    for r in s {
      rows[r + 1] |= 1 << k;
    }
  }
  rows
}

const CONTROL_SCHEMAS: [&str; 10] = [
  "r = \"a\" .cat \"b\"",
  "r = 1 .plus 2",
  "r = tstr .abnf \"a = %x61\"",
  "r = { x: int / ((tstr .size 1) .feature \"f\") }",
  "r = tstr .b64u 'ab'",
  "r = tstr .hex 'ab'",
  "r = tstr .base10 int",
  "r = tstr .json int",
  "r = \"a\\n  b\" .det \"c\"",
  "r = tstr .printf ([\"%d\", 1])",
];

pub fn inputs(tier: Tier) -> serde_json::Value {
  let cfg = syntax_cfg(Tier::Quick);
  let en = Enum::new(&cfg, 2);
  let gated = |d: &str| {
    CONTROL_NAMES.iter().skip(14).any(|op| d.contains(&format!(".{op}"))) // pcre and everything after it in the table
  };
  let mut core: Vec<String> = docs_types(&en, 2);
  core.extend(docs_headers(&en, 2));
  core.extend(docs_multi(Tier::Quick));
  core.extend(crate::c16::docs_nested());
  core.extend(docs_operators().into_iter().filter(|d| !gated(d)));
  core.retain(|d| !gated(d));
  core.sort();
  core.dedup();
  let controls: Vec<String> =
    docs_operators().into_iter().filter(|d| gated(d) && !d.contains(".pcre") && !d.contains(".iregexp") && !d.contains(".bitfield")).chain(CONTROL_SCHEMAS.iter().map(|s| format!("{s}\n"))).collect();
  let freezer: Vec<String> = docs_operators().into_iter().filter(|d| d.contains(".pcre") || d.contains(".iregexp") || d.contains(".bitfield")).collect();
  // commented documents: one comment at every gap of the multi-rule and nested documents (first spelling), two at the ends
  let mut commented = vec![];
  for d in docs_multi(Tier::Quick).into_iter().filter(|d| !gated(d)).step_by(tier.pick(7, 1)).chain(crate::c16::docs_nested().into_iter().step_by(tier.pick(5, 1))) {
    let sp = crate::c16::spaced(&d);
    for g in crate::c16::gaps(&sp) {
      commented.push(crate::c16::place(&sp, g, crate::c16::SPELLINGS[g % 3], "c1"));
    }
  }
  // validation: type terms of weight <= 2 (thorough 3) over the C01 core alphabet x the JSON universe
  let ccfg = core_cfg();
  let w = tier.pick(2usize, 3usize);
  let cen = Enum::new(&ccfg, w);
  let lib = helper_rules();
  let mut schemas: Vec<String> = vec![];
  for k in 1..=w {
    for ty in cen.types(k) {
      schemas.push(assemble(ty.clone(), &lib).render());
    }
  }
  if tier == Tier::Quick {
    // the quick tier keeps every third schema of weight 2 and all of weight 1 (driver run time)
    let n1 = cen.types(1).len();
    let mut k = 0;
    schemas.retain(|_| {
      k += 1;
      k <= n1 || k % 3 == 0
    });
  }
  // constructs that keep validator state across nested validators (generics, sockets, unwrap, group-to-choice, recursion):
  // the shared-feature family of C04 without the operators that need additional-controls / freezer
  for sch in crate::c04::shared_feature_schemas() {
    if !gated(&sch) {
      schemas.push(sch);
    }
  }
  for sch in ["r = m<int>\nm<t> = {* tstr => t}\n", "r = m<int>\nm<t> = {+ tstr => t}\n", "r = m<tstr, int>\nm<k, v> = {* k => v}\n", "r = [* m<int>]\nm<t> = {a: t, * tstr => t}\n"] {
    schemas.push(sch.to_string());
  }
  // regular expressions whose meaning depends on tables of the regex crates (case folding, Unicode classes): which tables
  // are compiled in is decided by cargo's feature unification over the whole dependency graph
  for pat in ["(?i)a", "(?i)\\u00e9", "\\p{Lu}", "\\d+", "\\w", "[[:alpha:]]+", "\\p{Greek}", "(?i)[a-c]x"] {
    schemas.push(format!("r = tstr .regexp \"{pat}\"\n"));
    schemas.push(format!("r = [* tstr .regexp \"{pat}\"]\n"));
  }
  let mut universe = json_universe(Tier::Quick);
  for t in ["A", "\u{c9}", "\u{e9}", "1", "Ax", "\u{3b1}", "\u{663}"] {
    universe.push(crate::docs::t(t));
    universe.push(crate::cborref::RV::Array(vec![crate::docs::t(t)]));
  }
  let json_docs: Vec<String> = universe.iter().map(to_json_text).collect();
  let cbor_docs: Vec<String> = universe.iter().chain(cbor_extra(Tier::Quick).iter()).map(|v| hex(&crate::cborref::preferred(v))).collect();
  let csv_docs: Vec<&str> = vec!["a,1\n", "a,b\n", "1,2\n", "h1,h2\na,1\n", "a,1\r\nb,2\r\n", "\"a,b\",1\n", "1.5,x\n", "", "a\n", "-1,100\n", "007,1e5\n"];
  json!({
    "core": core, "commented": commented, "controls": controls, "freezer": freezer,
    "schemas": schemas, "json_docs": json_docs, "cbor_docs": cbor_docs,
    "control_schemas": CONTROL_SCHEMAS, "control_docs": ["\"ab\"", "3", "\"a\"", "{\"x\":\"ss\"}", "\"YWI\"", "\"6162\"", "\"12\"", "\"1\"", "\"a\\nbc\"", "1"],
    "csv_schemas": crate::c13::SCHEMAS, "csv_docs": csv_docs,
  })
}

struct Built {
  mask: u32,
  /// key -> value
  obs: BTreeMap<String, String>,
  build_error: Option<String>,
  run_error: Option<String>,
}

fn build_and_run(mask: u32, worker: usize, input: &str) -> Built {
  // worker usize::MAX = the directory reserved for the all-features reference (so that it stays built between runs)
  let dir = if worker == usize::MAX { format!("{WORK}/wref") } else { format!("{WORK}/w{worker}") };
  let fl = feats(mask).join(",");
  let mut b = Built { mask, obs: BTreeMap::new(), build_error: None, run_error: None };
  let out = Command::new("cargo")
    .args(["build", "--offline", "--manifest-path", "/verif/c19drv/Cargo.toml", "--target-dir", &dir, "--message-format", "short", "--features", &fl])
    .env("CARGO_NET_OFFLINE", "true")
    .output();
  let out = match out {
    Ok(o) => o,
    Err(e) => {
      b.build_error = Some(format!("ENGINE cargo not started: {e}"));
      return b;
    }
  };
  if !out.status.success() {
    let err = String::from_utf8_lossy(&out.stderr);
    let lines: Vec<&str> = err.lines().filter(|l| l.contains("error")).take(6).collect();
    // errors in the driver itself or in the environment are machinery errors, not verdicts
    let in_crate = lines.iter().any(|l| l.starts_with("/repo/") || l.contains("/repo/src") || l.contains("could not compile `cddl`"));
    b.build_error = Some(format!("{}{}", if in_crate { "" } else { "ENGINE " }, lines.join(" | ")));
    return b;
  }
  let run = Command::new(format!("{dir}/debug/c19drv")).arg(input).output();
  match run {
    Ok(o) if o.status.success() => {
      for l in String::from_utf8_lossy(&o.stdout).lines() {
        // key = everything but the last field for verdict lines, first three fields otherwise
        let mut it = l.splitn(2, ' ');
        let tag = it.next().unwrap_or("");
        let rest = it.next().unwrap_or("");
        let (k, v) = match tag {
          "P" | "A" | "F" | "PV" => {
            let mut p = rest.splitn(3, ' ');
            let (fam, i, v) = (p.next().unwrap_or(""), p.next().unwrap_or(""), p.next().unwrap_or(""));
            (format!("{tag} {fam} {i}"), v.to_string())
          }
          _ => match rest.rsplit_once(' ') {
            Some((k, v)) => (format!("{tag} {k}"), v.to_string()),
            None => continue,
          },
        };
        b.obs.insert(k, v);
      }
    }
    Ok(o) => b.run_error = Some(format!("driver exited with {:?}: {}", o.status.code(), trunc(&String::from_utf8_lossy(&o.stderr)))),
    Err(e) => b.run_error = Some(format!("ENGINE driver not started: {e}")),
  }
  b
}

/// formatted text "up to comments": comments and all white space outside literals removed
fn strip_comments_ws(s: &str) -> String {
  let mut out = String::new();
  let mut quote: Option<char> = None;
  let mut it = s.chars().peekable();
  while let Some(c) = it.next() {
    if let Some(q) = quote {
      out.push(c);
      if c == '\\' {
        if let Some(d) = it.next() {
          out.push(d);
        }
      } else if c == q {
        quote = None;
      }
      continue;
    }
    match c {
      '"' | '\'' => {
        quote = Some(c);
        out.push(c);
      }
      ';' => {
        for d in it.by_ref() {
          if d == '\n' {
            break;
          }
        }
      }
      c if c.is_whitespace() => {}
      // the comment-preserving block layout (one entry per line) ends every entry with a comma, whether or not the source
      // had one: the optional commas of CDDL carry no meaning and are layout here, like the line breaks
      ',' => {}
      _ => out.push(c),
    }
  }
  out
}

/// is the observation `key` comparable between the combination `mask` and the all-features build?
fn comparable(key: &str, mask: u32) -> bool {
  let fam = key.split(' ').nth(1).unwrap_or("");
  match fam {
    "controls" => has(mask, "additional-controls"),
    "freezer" => has(mask, "freezer") && has(mask, "additional-controls"),
    _ => true,
  }
}

pub fn run(tier: Tier) -> i32 {
  quiet_panics();
  let mut run = Run::new("C19", tier, "model_checking");
  std::fs::create_dir_all(WORK).expect("work dir");
  let input = format!("{WORK}/inputs-{}.json", tier.name());
  let inp = inputs(tier);
  std::fs::write(&input, serde_json::to_string(&inp).unwrap()).expect("write inputs");
  let masks: Vec<u32> = match std::env::var("VERIF_MASKS").ok() {
    Some(s) => s.split(',').filter_map(|x| x.parse().ok()).collect(), // triage aid
    None => match tier {
      Tier::Quick => pairwise(),
      Tier::Thorough => (0..256).collect(),
    },
  };
  let workers = tier.pick(6usize, 8usize);
  // reference first, in its own target directory (primed from w0, which setup_cmd builds), then the combinations, each
  // worker owning one target directory
  if !std::path::Path::new(&format!("{WORK}/wref")).exists() && std::path::Path::new(&format!("{WORK}/w0")).exists() {
    let _ = Command::new("cp").args(["-a", &format!("{WORK}/w0"), &format!("{WORK}/wref")]).status();
  }
  let reference = build_and_run(ALL, usize::MAX, &input);
  if let Some(e) = reference.build_error.as_ref().or(reference.run_error.as_ref()) {
    if e.starts_with("ENGINE") {
      println!("ENGINE-ERROR C19 reference build: {e}");
      return 2;
    }
    run.viol(Viol { kind: "does-not-build".into(), case: json!({"features": feats(ALL)}), observed: e.clone(), expected: "the all-features combination builds and runs".into(), finding: None });
    return run.finish();
  }
  // prime the other workers from worker 0 (dependencies are the same for every combination)
  for w in 0..workers {
    let d = format!("{WORK}/w{w}");
    if !std::path::Path::new(&d).exists() {
      let _ = Command::new("cp").args(["-a", &format!("{WORK}/wref"), &d]).status();
    }
  }
  let todo: Vec<u32> = masks.iter().copied().filter(|m| *m != ALL).collect();
  let results: Vec<Vec<Built>> = {
    let todo = &todo;
    let input = &input;
    std::thread::scope(|s| {
      let hs: Vec<_> = (0..workers)
        .map(|w| {
          s.spawn(move || {
            let mut v = vec![];
            let mut k = w;
            while k < todo.len() {
              v.push(build_and_run(todo[k], w, input));
              k += workers;
            }
            v
          })
        })
        .collect();
      hs.into_iter().map(|h| h.join().unwrap()).collect()
    })
  };
  let mut built = 0u64;
  let mut compared = 0u64;
  let mut incomparable = 0u64;
  let mut kinds: BTreeMap<String, u64> = BTreeMap::new();
  let mut engine: Option<String> = None;
  for b in results.into_iter().flatten() {
    run.states += 1;
    let fl = feats(b.mask);
    if let Some(e) = &b.build_error {
      if e.starts_with("ENGINE") {
        engine = Some(e.clone());
        continue;
      }
      *kinds.entry("does-not-build".into()).or_insert(0) += 1;
      run.viol(Viol { kind: "does-not-build".into(), case: json!({"features": fl, "mask": b.mask}), observed: trunc(e), expected: "every combination of the documented optional features builds".into(), finding: None });
      continue;
    }
    if let Some(e) = &b.run_error {
      if e.starts_with("ENGINE") {
        engine = Some(e.clone());
        continue;
      }
      run.viol(Viol { kind: "driver-crashed".into(), case: json!({"features": fl, "mask": b.mask}), observed: e.clone(), expected: "the driver runs to completion (panics are caught per input)".into(), finding: None });
      continue;
    }
    built += 1;
    let mut reported: BTreeMap<String, u32> = BTreeMap::new();
    for (k, v) in &b.obs {
      let Some(rv) = reference.obs.get(k) else { continue };
      if !comparable(k, b.mask) {
        incomparable += 1;
        continue;
      }
      compared += 1;
      run.transitions += 1;
      let tag = k.split(' ').next().unwrap_or("");
      let same = match tag {
        // comment-free documents: the two printer copies must give the same text; commented documents: the same text up to comments
        "F" if k.starts_with("F commented ") => {
          let a: String = serde_json::from_str(v).unwrap_or_default();
          let r: String = serde_json::from_str(rv).unwrap_or_default();
          a == r || strip_comments_ws(&a) == strip_comments_ws(&r)
        }
        _ => v == rv,
      };
      if !same {
        let kind = match tag {
          "P" => "acceptance-differs",
          "A" => "ast-differs",
          "F" => "formatted-text-differs",
          "PV" => "parent-index-differs",
          _ => "verdict-differs",
        };
        *kinds.entry(kind.into()).or_insert(0) += 1;
        let n = reported.entry(kind.into()).or_insert(0);
        *n += 1;
        if *n <= 3 {
          let mut f = k.split(' ');
          let (_t, a1, a2) = (f.next(), f.next().unwrap_or(""), f.next().unwrap_or(""));
          let what = match tag {
            "P" | "A" | "F" | "PV" => json!({"document": inp[a1][a2.parse::<usize>().unwrap_or(0)]}),
            "VJ" => json!({"schema": inp["schemas"][a1.parse::<usize>().unwrap_or(0)], "json": inp["json_docs"][a2.parse::<usize>().unwrap_or(0)]}),
            "VC" => json!({"schema": inp["schemas"][a1.parse::<usize>().unwrap_or(0)], "cbor": inp["cbor_docs"][a2.parse::<usize>().unwrap_or(0)]}),
            "WJ" => json!({"schema": inp["control_schemas"][a1.parse::<usize>().unwrap_or(0)], "json": inp["control_docs"][a2.parse::<usize>().unwrap_or(0)]}),
            _ => json!({"csv_schema": inp["csv_schemas"][a1.parse::<usize>().unwrap_or(0)], "csv": inp["csv_docs"][a2.parse::<usize>().unwrap_or(0)], "rest": k}),
          };
          run.viol(Viol {
            kind: kind.into(),
            case: json!({"features": fl, "mask": b.mask, "observation": k, "input": what}),
            observed: format!("with features [{}]: {}", fl.join(","), trunc(v)),
            expected: format!("as with all features: {}", trunc(rv)),
            finding: None,
          });
        }
      }
    }
  }
  if let Some(e) = engine {
    println!("ENGINE-ERROR C19: {e}");
    return 2;
  }
  for k in ["P core 0", "A core 1", "F commented 0", "VJ 0 0", "VC 0 0", "PV core 3"] {
    if let Some(v) = reference.obs.get(k) {
      run.sample(json!({"observation": k, "value_in_the_all_features_build": trunc(v)}));
    }
  }
  run.states += 1; // the reference
  run.traces = run.states;
  run.evaluations = compared;
  run.nontrivial = built;
  run.set("combinations", json!(run.states));
  run.set("combinations_built_and_run", json!(built + 1));
  run.set("observations_per_full_run", json!(reference.obs.len()));
  run.set("observations_compared", json!(compared));
  run.set("observations_not_comparable_feature_missing", json!(incomparable));
  run.set("violations_by_kind", json!(kinds));
  run.set("input_sizes", json!({"core": inp["core"].as_array().map(|a| a.len()), "commented": inp["commented"].as_array().map(|a| a.len()), "controls": inp["controls"].as_array().map(|a| a.len()),
    "freezer": inp["freezer"].as_array().map(|a| a.len()), "schemas": inp["schemas"].as_array().map(|a| a.len()), "json_docs": inp["json_docs"].as_array().map(|a| a.len()),
    "cbor_docs": inp["cbor_docs"].as_array().map(|a| a.len())}));
  if tier == Tier::Quick {
    run.set("combination_rows", json!(pairwise().iter().map(|m| feats(*m).join(",")).collect::<Vec<_>>()));
  }
  run.rule = format!(
    "state = a feature combination (std + a subset of ast-span, ast-comments, ast-parent, json, cbor, csv-validate, additional-controls, freezer). {} \
     transition = build of the driver /verif/c19drv against /repo's working tree with exactly that combination (cargo build --no-default-features; failure = violation), one run of it on the \
     input file, and comparison of every observation with the all-features build: parse acceptance, FNV of the AST's Debug form with span and *comments* fields removed, with ast-parent the rule reached by climbing the parent index from every top-level operand and operator, formatted text \
     (equal for comment-free documents; for commented documents equal after removing comments, white space and the (optional, meaningless) commas), JSON / CBOR verdicts of type terms of weight <= {} over the C01 alphabet x the JSON universe \
     (CBOR: + CBOR-only values), CSV verdicts of 16 schemas x 11 texts x header flag, control-operator schemas. Documents that use additional-controls or freezer operators are compared \
     only when the combination has that feature (README: the operators exist only then; .pcre is documented to differ without freezer).",
    match tier {
      Tier::Quick => "Quick: 6 combinations forming a covering array of strength 2 (every pair of features in all four on/off combinations) + the all-features build.",
      Tier::Thorough => "Thorough: all 2^8 = 256 combinations.",
    },
    w_of(tier)
  );
  run.finish()
}
fn w_of(tier: Tier) -> usize {
  tier.pick(2, 3)
}

pub fn replay(case: &serde_json::Value) -> Option<Viol> {
  // re-build the one combination and compare the one observation
  let mask = case["mask"].as_u64()? as u32;
  std::fs::create_dir_all(WORK).ok()?;
  let tier = Tier::Thorough;
  let input = format!("{WORK}/inputs-replay.json");
  let inp = {
    // the observation may come from either tier's input file: try both
    let mut found = None;
    for t in [Tier::Quick, tier] {
      let i = inputs(t);
      std::fs::write(&input, serde_json::to_string(&i).unwrap()).ok()?;
      found = Some(i);
      let reference = build_and_run(ALL, usize::MAX, &input);
      let b = build_and_run(mask, 0, &input);
      if let Some(e) = &b.build_error {
        return Some(Viol { kind: "does-not-build".into(), case: case.clone(), observed: trunc(e), expected: "builds".into(), finding: None });
      }
      let key = case["observation"].as_str().unwrap_or("");
      if let (Some(v), Some(rv)) = (b.obs.get(key), reference.obs.get(key)) {
        let same = if key.starts_with("F commented ") {
          let a: String = serde_json::from_str(v).unwrap_or_default();
          let r: String = serde_json::from_str(rv).unwrap_or_default();
          a == r || strip_comments_ws(&a) == strip_comments_ws(&r)
        } else {
          v == rv
        };
        let doc_matches = i_matches(found.as_ref().unwrap(), key, &case["input"]);
        if doc_matches {
          if !same {
            return Some(Viol { kind: "differs".into(), case: case.clone(), observed: trunc(v), expected: trunc(rv), finding: None });
          }
          return None;
        }
      }
    }
    found
  };
  let _ = inp;
  None
}
fn i_matches(inp: &serde_json::Value, key: &str, input: &serde_json::Value) -> bool {
  let mut f = key.split(' ');
  let (t, a1, a2) = (f.next().unwrap_or(""), f.next().unwrap_or(""), f.next().unwrap_or(""));
  match t {
    "P" | "A" | "F" | "PV" => inp[a1][a2.parse::<usize>().unwrap_or(0)] == input["document"],
    "VJ" | "VC" => inp["schemas"][a1.parse::<usize>().unwrap_or(0)] == input["schema"],
    _ => true,
  }
}
