//! C10 — map validation does not depend on entry order.
//! Relational check, no reference model: a state is (schema, map document); its
//! successors are all permutations of the document's map entries (part A, CBOR value
//! order and JSON text order) and all permutations of the schema's map members when
//! their key sets are pairwise disjoint (part B, both validators). Every successor must
//! show the verdict of the state it was derived from.
use crate::cborref::RV;
use crate::core::*;
use crate::docs::*;
use crate::space::*;
use crate::terms::*;
use crate::verdicts::*;
use serde_json::json;
use std::collections::BTreeMap;

pub const F_GREEDY: &str = "C10-cbor-type-keyed-member-claims-depend-on-entry-order";
pub const F_DUP: &str = "C10-cbor-duplicate-key-first-pair-claimed";

fn perms<T: Clone>(v: &[T]) -> Vec<Vec<T>> {
  if v.len() <= 1 {
    return vec![v.to_vec()];
  }
  let mut out = vec![];
  for i in 0..v.len() {
    let mut rest = v.to_vec();
    let x = rest.remove(i);
    for mut p in perms(&rest) {
      p.insert(0, x.clone());
      out.push(p);
    }
  }
  out
}

/// all documents obtained by permuting the entries of every map inside `v`
fn doc_perms(v: &RV) -> Vec<RV> {
  match v {
    RV::Map(es) => {
      // permute this map's entries x permutations inside the values (first value with maps only)
      let mut variants: Vec<Vec<(RV, RV)>> = vec![vec![]];
      for (k, val) in es {
        let vs = doc_perms(val);
        let mut nv = vec![];
        for pre in &variants {
          for x in &vs {
            let mut p = pre.clone();
            p.push((k.clone(), x.clone()));
            nv.push(p);
          }
        }
        variants = nv;
      }
      variants.into_iter().flat_map(|es| perms(&es)).map(RV::Map).collect()
    }
    RV::Array(xs) => {
      let mut variants: Vec<Vec<RV>> = vec![vec![]];
      for x in xs {
        let vs = doc_perms(x);
        let mut nv = vec![];
        for pre in &variants {
          for y in &vs {
            let mut p = pre.clone();
            p.push(y.clone());
            nv.push(p);
          }
        }
        variants = nv;
      }
      variants.into_iter().map(RV::Array).collect()
    }
    _ => vec![v.clone()],
  }
}

/// member alphabet for the dedicated map family
fn members() -> Vec<Entry> {
  let kv = |occ: Occ, k: Key, t: T2| Entry { occ, kind: EK::Val(Some(k), ty1(t)) };
  let bare = |s: &str| Key::Bare(s.into());
  let arrow = |t: T2| Key::Arrow(t1(t), false);
  vec![
    kv(Occ::One, bare("a"), name("int")),
    kv(Occ::One, bare("b"), name("tstr")),
    kv(Occ::Opt, bare("a"), name("int")),
    kv(Occ::Opt, bare("b"), name("tstr")),
    kv(Occ::Opt, bare("c"), name("any")),
    kv(Occ::One, arrow(text("a")), int(1)),
    kv(Occ::One, arrow(int(1)), name("int")),
    kv(Occ::Opt, arrow(int(2)), name("tstr")),
    kv(Occ::Star, arrow(name("tstr")), name("int")),
    kv(Occ::Star, arrow(name("tstr")), name("any")),
    kv(Occ::Plus, arrow(name("tstr")), name("tstr")),
    kv(Occ::Star, arrow(name("uint")), name("int")),
    kv(Occ::One, arrow(name("tstr")), name("int")),
    kv(Occ::Opt, arrow(name("tstr")), name("tstr")),
    kv(Occ::Star, arrow(name("int")), name("any")),
    kv(Occ::Range(None, Some(1)), arrow(name("tstr")), name("int")),
    kv(Occ::Range(Some(1), Some(2)), arrow(name("tstr")), name("tstr")),
    kv(Occ::One, arrow(name("tstr")), name("any")),
    Entry { occ: Occ::One, kind: EK::Ref("gk".into(), vec![]) },
    Entry { occ: Occ::One, kind: EK::Ref("go".into(), vec![]) },
    // generic group references (each citation binds its own arguments)
    Entry { occ: Occ::One, kind: EK::Ref("kv".into(), vec![t1(text("c")), t1(name("int"))]) },
    Entry { occ: Occ::Opt, kind: EK::Ref("kv".into(), vec![t1(text("b")), t1(name("tstr"))]) },
    // a generic group whose parameter is called like a rule a sibling member uses (value = any)
    Entry { occ: Occ::One, kind: EK::Ref("opt".into(), vec![t1(name("tstr"))]) },
    kv(Occ::One, arrow(name("tstr")), name("value")),
  ]
}

/// the generic group rule the member alphabet cites: kv<k, v> = (k => v)
fn generic_lib() -> Vec<RuleT> {
  let mut lib = helper_rules();
  lib.push(RuleT {
    name: "kv".into(),
    params: vec!["k".into(), "v".into()],
    assign: Assign::Eq,
    body: Body::Group(Entry { occ: Occ::One, kind: EK::Inline(Grp(vec![vec![Entry { occ: Occ::One, kind: EK::Val(Some(Key::Arrow(t1(name("k")), false)), ty1(name("v"))) }]])) }),
  });
  lib.push(RuleT {
    name: "opt".into(),
    params: vec!["value".into()],
    assign: Assign::Eq,
    body: Body::Group(Entry { occ: Occ::One, kind: EK::Inline(Grp(vec![vec![Entry { occ: Occ::Opt, kind: EK::Val(Some(Key::Arrow(t1(name("tstr")), false)), ty1(name("value"))) }]])) }),
  });
  lib.push(type_rule("value", ty1(name("any"))));
  lib
}

/// sub-alphabet for the two-alternative family (<= 2 members per alternative)
fn alt_members() -> Vec<Entry> {
  let kv = |occ: Occ, k: Key, t: T2| Entry { occ, kind: EK::Val(Some(k), ty1(t)) };
  let bare = |s: &str| Key::Bare(s.into());
  let arrow = |t: T2| Key::Arrow(t1(t), false);
  vec![
    kv(Occ::One, arrow(name("tstr")), name("any")),
    kv(Occ::One, arrow(name("tstr")), name("int")),
    kv(Occ::One, arrow(name("tstr")), name("tstr")),
    kv(Occ::Opt, arrow(name("tstr")), name("int")),
    kv(Occ::Star, arrow(name("tstr")), name("int")),
    kv(Occ::Range(None, Some(1)), arrow(name("tstr")), name("int")),
    kv(Occ::One, arrow(name("uint")), name("tstr")),
    kv(Occ::One, bare("a"), name("int")),
    kv(Occ::One, bare("b"), name("tstr")),
  ]
}

/// literal key of a member when it has exactly one (None = type key / group)
fn lit_key(e: &Entry) -> Option<String> {
  match &e.kind {
    EK::Val(Some(Key::Bare(s)), _) => Some(format!("t:{s}")),
    EK::Val(Some(Key::Arrow(k, _)), _) if k.op.is_none() => match &k.t2 {
      T2::Lit(Lit::Text(s)) => Some(format!("t:{s}")),
      T2::Lit(Lit::Int(n)) => Some(format!("i:{n}")),
      _ => None,
    },
    EK::Ref(n, _) if n == "gk" => Some("t:a".into()),
    EK::Ref(n, _) if n == "go" => Some("t:b".into()),
    EK::Ref(n, a) if n == "kv" => match a.first().map(|k| &k.t2) {
      Some(T2::Lit(Lit::Text(s))) => Some(format!("t:{s}")),
      _ => None,
    },
    _ => None,
  }
}
fn disjoint(ms: &[Entry]) -> bool {
  let ks: Vec<Option<String>> = ms.iter().map(lit_key).collect();
  ks.iter().all(|k| k.is_some()) && (0..ks.len()).all(|i| (0..i).all(|j| ks[i] != ks[j]))
}

fn map_docs(tier: Tier) -> Vec<RV> {
  let ks: Vec<RV> = vec![t("a"), t("b"), t("c"), i(1), i(2)];
  let vs: Vec<RV> = tier.pick(vec![i(1), t("x")], vec![i(1), t("x"), NULL]);
  let mut out = vec![];
  for n in 2..=3usize {
    // ordered key selections without repetition are produced by doc_perms; enumerate sets
    let mut idx: Vec<usize> = (0..n).collect();
    loop {
      // all value assignments
      let mut val = vec![0usize; n];
      loop {
        out.push(RV::Map((0..n).map(|j| (ks[idx[j]].clone(), vs[val[j]].clone())).collect()));
        let mut p = 0;
        while p < n {
          val[p] += 1;
          if val[p] < vs.len() {
            break;
          }
          val[p] = 0;
          p += 1;
        }
        if p == n {
          break;
        }
      }
      // next combination
      let mut p = n;
      while p > 0 && idx[p - 1] == ks.len() - n + p - 1 {
        p -= 1;
      }
      if p == 0 {
        break;
      }
      idx[p - 1] += 1;
      for q in p..n {
        idx[q] = idx[q - 1] + 1;
      }
    }
  }
  // duplicate and equivalent keys (CBOR only): every physical pair must be accounted for
  for d in dup_docs() {
    out.push(d);
  }
  // nested: a map inside an array and inside a map value
  out.push(RV::Array(vec![RV::Map(vec![(t("a"), i(1)), (t("b"), t("x"))])]));
  out.push(RV::Map(vec![(t("a"), RV::Map(vec![(t("a"), i(1)), (t("b"), t("x"))])), (t("b"), t("x"))]));
  out
}

pub fn dup_docs() -> Vec<RV> {
  vec![
    RV::Map(vec![(t("a"), i(1)), (t("a"), i(1))]),
    RV::Map(vec![(t("a"), i(1)), (t("a"), t("x"))]),
    RV::Map(vec![(t("a"), i(1)), (t("b"), t("x")), (t("a"), i(1))]),
    RV::Map(vec![(t("b"), t("x")), (t("b"), t("x"))]),
    RV::Map(vec![(i(1), i(1)), (i(1), i(1))]),
    RV::Map(vec![(i(1), i(1)), (i(1), t("x"))]),
    RV::Map(vec![(i(1), i(1)), (RV::Float(1.0), i(1))]),
    RV::Map(vec![(t("a"), i(1)), (t("c"), i(1)), (t("c"), i(1))]),
  ]
}

/// does some map of the document hold the same key twice?
fn has_dup_key(v: &RV) -> bool {
  match v {
    RV::Map(es) => {
      (0..es.len()).any(|i| (0..i).any(|j| es[i].0 == es[j].0)) || es.iter().any(|(_, x)| has_dup_key(x))
    }
    RV::Array(xs) => xs.iter().any(has_dup_key),
    _ => false,
  }
}

/// every member has exactly one literal key and occurrence none/'?' (so it can account for
/// at most one physical pair), and the keys are pairwise distinct
fn single_key_members(g: &[Vec<Entry>]) -> bool {
  g.iter().all(|alt| alt.iter().all(|e| matches!(e.occ, Occ::One | Occ::Opt) && lit_key(e).is_some()) && disjoint(alt))
}

fn is_json_doc(v: &RV) -> bool {
  is_json(v)
}

#[derive(Default)]
struct Acc {
  v: VAcc,
  schemas: u64,
  states: u64,
  succ: u64,
  nontrivial: u64,
  dup_states: u64,
  rec: Vec<(String, u64)>,
  obs: BTreeMap<String, u64>,
  samples: Vec<serde_json::Value>,
}

fn cbor_obs(ast_text: &str, docs: &[RV]) -> Option<Vec<Obs>> {
  cbor_many(ast_text, docs).ok()
}

/// part A for one schema: every document x every permutation of its map entries
fn part_a(text: &str, g: &[Vec<Entry>], docs: &[RV], a: &mut Acc) {
  let mut all: Vec<RV> = vec![];
  let mut span: Vec<(usize, usize)> = vec![];
  for d in docs {
    let ps = doc_perms(d);
    span.push((all.len(), ps.len()));
    all.extend(ps);
  }
  let Some(obs) = cbor_obs(text, &all) else {
    return;
  };
  let mut any_ok = false;
  let mut any_rej = false;
  for (lo, n) in span {
    a.states += 1;
    a.succ += n as u64 - 1;
    let o0 = &obs[lo];
    match o0 {
      Obs::Ok => any_ok = true,
      Obs::Invalid => any_rej = true,
      _ => {}
    }
    *a.obs.entry(format!("cbor {}", o0.short().split('(').next().unwrap_or(""))).or_insert(0) += 1;
    if has_dup_key(&all[lo]) && single_key_members(g) {
      a.dup_states += 1;
      if *o0 == Obs::Ok {
        a.v.push(Viol {
          kind: "cbor-duplicate-key-collapsed".into(),
          case: json!({"schema": text, "doc": hex(&crate::cborref::preferred(&all[lo])), "doc_diag": crate::cborref::rv_to_diag(&all[lo])}),
          observed: "Ok".into(),
          expected: "rejected: every member can account for at most one pair and its keys are distinct, so one of the duplicate pairs is unaccounted for".into(),
          finding: None,
        });
      }
    }
    for k in 1..n {
      if obs[lo + k] != *o0 {
        a.v.push(Viol {
          kind: "cbor-doc-order".into(),
          case: json!({"schema": text, "doc": hex(&crate::cborref::preferred(&all[lo])), "permuted": hex(&crate::cborref::preferred(&all[lo + k])),
                       "doc_diag": crate::cborref::rv_to_diag(&all[lo]), "permuted_diag": crate::cborref::rv_to_diag(&all[lo + k])}),
          observed: format!("{} vs permuted {}", o0.short(), obs[lo + k].short()),
          expected: "same verdict".into(),
          finding: attribute(g, text, &all[lo], &mut a.rec),
        });
        break;
      }
    }
    // JSON text order (one permutation pair per JSON-model document)
    if n > 1 && is_json_doc(&all[lo]) {
      let j0 = json_str(text, &to_json_text(&all[lo]));
      let j1 = json_str(text, &to_json_text(&all[lo + n - 1]));
      a.succ += 1;
      if j0 != j1 {
        a.v.push(Viol {
          kind: "json-doc-order".into(),
          case: json!({"schema": text, "json": to_json_text(&all[lo]), "permuted": to_json_text(&all[lo + n - 1])}),
          observed: format!("{} vs permuted {}", j0.short(), j1.short()),
          expected: "same verdict".into(),
          finding: None,
        });
      }
    }
  }
  if any_ok && any_rej {
    a.nontrivial += docs.len() as u64;
  }
}

/// key of a state for the recorded-state list of the known finding
pub fn state_key(schema: &str, d: &RV) -> u64 {
  // FNV-1a over "schema \0 canonical (key-sorted) document"
  let mut canon = d.clone();
  sort_maps(&mut canon);
  let mut h: u64 = 0xcbf29ce484222325;
  for b in schema.bytes().chain([0u8]).chain(crate::cborref::rv_to_diag(&canon).bytes()) {
    h ^= b as u64;
    h = h.wrapping_mul(0x100000001b3);
  }
  h
}
fn sort_maps(v: &mut RV) {
  match v {
    RV::Map(es) => {
      es.iter_mut().for_each(|(_, x)| sort_maps(x));
      es.sort_by(|a, b| format!("{:?}", a).cmp(&format!("{:?}", b)));
    }
    RV::Array(xs) => xs.iter_mut().for_each(sort_maps),
    _ => {}
  }
}
/// The states (schema, document up to entry order) on which the recorded finding F_GREEDY was
/// observed when it was recorded (committed file, never written by a check run). A violating
/// state is attributed to the finding only if it matches the structural pattern AND is on this
/// list, so an order dependence on any other input is reported.
pub fn recorded(id: &str) -> &'static std::collections::HashSet<u64> {
  static R: std::sync::OnceLock<BTreeMap<String, std::collections::HashSet<u64>>> = std::sync::OnceLock::new();
  static EMPTY: std::sync::OnceLock<std::collections::HashSet<u64>> = std::sync::OnceLock::new();
  let m = R.get_or_init(|| {
    let mut m = BTreeMap::new();
    for id in [F_GREEDY, F_DUP] {
      let p = format!("{}/known/{}.states", VERIF, id);
      let set = std::fs::read_to_string(p).unwrap_or_default().lines().filter_map(|l| u64::from_str_radix(l.trim(), 16).ok()).collect();
      m.insert(id.to_string(), set);
    }
    m
  });
  m.get(id).unwrap_or_else(|| EMPTY.get_or_init(Default::default))
}

/// structural candidate + membership in the recorded state list (VERIF_RECORD: collect the
/// candidate's key instead, for writing the list by hand)
fn attribute(g: &[Vec<Entry>], text: &str, d: &RV, rec: &mut Vec<(String, u64)>) -> Option<String> {
  let cand = classify_a(g, d)?;
  let key = state_key(text, d);
  if std::env::var("VERIF_RECORD").is_ok() {
    rec.push((cand.clone(), key));
    return Some(cand);
  }
  recorded(&cand).contains(&key).then_some(cand)
}

/// Known finding (CBOR): a member keyed by a *type* with occurrence none or `?` claims the
/// first not-yet-claimed entry of the document (in encoding order) whose key is in the key
/// type, without regard to the members that follow, so the verdict depends on entry order.
/// Attributed only when the schema has such a member AND the document has at least two
/// entries whose keys lie in that member's key type (otherwise order cannot reach it).
fn classify_a(g: &[Vec<Entry>], d: &RV) -> Option<String> {
  fn in_dom(n: &str, k: &RV) -> bool {
    match n {
      "tstr" | "text" => matches!(k, RV::Text(_)),
      "int" => matches!(k, RV::Uint(_) | RV::Nint(_)),
      "uint" => matches!(k, RV::Uint(_)),
      "any" => true,
      _ => false,
    }
  }
  fn maps<'a>(v: &'a RV, out: &mut Vec<&'a Vec<(RV, RV)>>) {
    match v {
      RV::Map(es) => {
        out.push(es);
        es.iter().for_each(|(_, x)| maps(x, out));
      }
      RV::Array(xs) => xs.iter().for_each(|x| maps(x, out)),
      _ => {}
    }
  }
  let mut ms = vec![];
  maps(d, &mut ms);
  if has_dup_key(d) {
    // a literal-key member takes the first physical pair with its key even when only a later
    // duplicate satisfies it (second recorded finding); needs a duplicated key in the document
    return Some(F_DUP.into());
  }
  for alt in g {
    for e in alt {
      // the generic group opt<K> = (? K => value) is such a member with key type K
      if let EK::Ref(n, args) = &e.kind {
        if n == "opt" {
          if let Some(T2::Name(kn, _)) = args.first().map(|a| &a.t2) {
            if ms.iter().any(|es| es.iter().filter(|(key, _)| in_dom(kn, key)).count() >= 2) {
              return Some(F_GREEDY.into());
            }
          }
        }
      }
      if let (Occ::One | Occ::Opt | Occ::Range(_, Some(_)), EK::Val(Some(Key::Arrow(k, _)), _)) = (&e.occ, &e.kind) {
        if let (None, T2::Name(n, _)) = (&k.op, &k.t2) {
          if ms.iter().any(|es| es.iter().filter(|(key, _)| in_dom(n, key)).count() >= 2) {
            return Some(F_GREEDY.into());
          }
        }
      }
    }
  }
  None
}

pub fn run(tier: Tier) -> i32 {
  quiet_panics();
  let mut run = Run::new("C10", tier, "model_checking");
  let lib = generic_lib();
  let ms = members();
  let docs = map_docs(tier);
  // family 1: maps with 1..3 members from the member alphabet (one group choice), and two-alternative maps
  let mut fam: Vec<(Vec<Vec<Entry>>, bool)> = vec![];
  for a in &ms {
    fam.push((vec![vec![a.clone()]], false));
    for b in &ms {
      fam.push((vec![vec![a.clone(), b.clone()]], false));
      fam.push((vec![vec![a.clone()], vec![b.clone()]], false));
      {
        for c in &ms {
          fam.push((vec![vec![a.clone(), b.clone(), c.clone()]], false));
        }
      }
    }
  }
  let am = alt_members();
  let mut alts: Vec<Vec<Entry>> = vec![];
  for a in &am {
    alts.push(vec![a.clone()]);
    for b in &am {
      alts.push(vec![a.clone(), b.clone()]);
    }
  }
  for x in &alts {
    for y in &alts {
      if x.len() + y.len() >= 3 {
        fam.push((vec![x.clone(), y.clone()], false));
      }
    }
  }
  let fam_len = fam.len();
  let accs = par_sweep(fam_len, 8, Acc::default, |i, a: &mut Acc| {
    let g = &fam[i].0;
    let schema = assemble(ty1(T2::Map(Grp(g.clone()))), &lib);
    let text = schema.render();
    a.schemas += 1;
    part_a(&text, g, &docs, a);
    // part B: permutations of pairwise key-disjoint members (single alternative)
    if g.len() == 1 && g[0].len() >= 2 && disjoint(&g[0]) {
      let base_c = cbor_obs(&text, &docs);
      let jdocs: Vec<serde_json::Value> = docs.iter().filter(|d| is_json_doc(d)).map(rv_to_serde).collect();
      let base_j = json_many(&text, &jdocs).ok();
      for p in perms(&g[0]).into_iter().skip(1) {
        let t2 = assemble(ty1(T2::Map(Grp(vec![p]))), &lib).render();
        a.succ += (docs.len() + jdocs.len()) as u64;
        let oc = cbor_obs(&t2, &docs);
        let oj = json_many(&t2, &jdocs).ok();
        if oc != base_c {
          let k = base_c.as_ref().zip(oc.as_ref()).and_then(|(x, y)| (0..x.len()).find(|&k| x[k] != y[k])).unwrap_or(0);
          a.v.push(Viol {
            kind: "cbor-member-order".into(),
            case: json!({"schema": text, "permuted_schema": t2, "doc": hex(&crate::cborref::preferred(&docs[k])), "doc_diag": crate::cborref::rv_to_diag(&docs[k])}),
            observed: format!("{:?} vs {:?}", base_c.as_ref().map(|x| x[k].short()), oc.as_ref().map(|x| x[k].short())),
            expected: "same verdict".into(),
            finding: None,
          });
        }
        if oj != base_j {
          let k = base_j.as_ref().zip(oj.as_ref()).and_then(|(x, y)| (0..x.len()).find(|&k| x[k] != y[k])).unwrap_or(0);
          a.v.push(Viol {
            kind: "json-member-order".into(),
            case: json!({"schema": text, "permuted_schema": t2, "json": jdocs[k].to_string()}),
            observed: format!("{:?} vs {:?}", base_j.as_ref().map(|x| x[k].short()), oj.as_ref().map(|x| x[k].short())),
            expected: "same verdict".into(),
            finding: None,
          });
        }
      }
    }
    if a.samples.len() < 2 && i % 401 == 7 {
      a.samples.push(json!({"schema": text, "doc": format!("{:?}", docs[i % docs.len()]), "permutations": doc_perms(&docs[i % docs.len()]).len()}));
    }
  });
  let mut obs: BTreeMap<String, u64> = BTreeMap::new();
  let mut rec: BTreeMap<String, std::collections::BTreeSet<u64>> = BTreeMap::new();
  for a in accs {
    for (f, k) in &a.rec {
      rec.entry(f.clone()).or_default().insert(*k);
    }
    run.absorb(a.v);
    run.states += a.states;
    run.transitions += a.succ;
    run.traces += a.states + a.succ;
    run.nontrivial += a.nontrivial;
    run.add("schemas", a.schemas);
    run.add("duplicate_key_states_judged", a.dup_states);
    for (k, v) in a.obs {
      *obs.entry(k).or_insert(0) += v;
    }
    for s in a.samples {
      run.sample(s);
    }
  }
  if let Ok(dir) = std::env::var("VERIF_RECORD") {
    // manual operation (never part of a registered command): write the candidate state lists
    for (f, ks) in &rec {
      let body: String = ks.iter().map(|k| format!("{:016x}\n", k)).collect();
      let _ = std::fs::create_dir_all(&dir);
      let _ = std::fs::write(format!("{dir}/{f}.states"), body);
      eprintln!("recorded {} states for {f}", ks.len());
    }
  }
  run.evaluations = run.states + run.transitions;
  run.set("distinct_observations", json!(obs));
  run.set("documents", json!(docs.len()));
  run.rule = format!(
    "state = (map schema, map document). Schemas: every map with 1..3 members (one alternative) and every two-alternative map (one member each) over a \
     {}-member alphabet (bareword/text/int literal keys, type keys tstr/uint/int with occurrences none ? * + *1 1*2, group references), plus every \
     two-alternative map with up to two members per alternative over a 9-member sub-alphabet. Documents: \
     every map of 2..3 entries over keys a,b,c,1,2 x values, plus 8 documents with duplicate / equivalent (1 vs 1.0) keys and nested maps ({} documents). transition = one permutation of a document's map \
     entries (all n! enumerated; CBOR value order, and JSON text order for JSON-model documents) or one permutation of the schema's members when \
     their literal keys are pairwise distinct (both validators, all documents). Oracle: the successor's verdict equals the state's; and a document with a duplicated key is rejected by every schema whose members each \
     name one distinct literal key with occurrence none/? (no pair may be collapsed). \
     non-trivial = states of schemas that both accept and reject some document.",
    ms.len(),
    docs.len()
  );
  run.assumptions = vec![
    "serde_json is built without preserve_order, so JSON text order can only matter through the parser; it is still exercised".into(),
    "duplicate-key accounting is judged only where no model is needed (all members single-keyed, distinct, at most once)".into(),
  ];
  run.finish()
}

pub fn replay(case: &serde_json::Value, kind: &str) -> Option<Viol> {
  let text = case["schema"].as_str()?;
  let mk = |o: String| Viol { kind: kind.into(), case: case.clone(), observed: o, expected: "same verdict".into(), finding: None };
  match kind {
    "cbor-doc-order" => {
      let a = cbor_slice(text, &unhex(case["doc"].as_str()?));
      let b = cbor_slice(text, &unhex(case["permuted"].as_str()?));
      (a != b).then(|| mk(format!("{} vs permuted {}", a.short(), b.short())))
    }
    "json-doc-order" => {
      let a = json_str(text, case["json"].as_str()?);
      let b = json_str(text, case["permuted"].as_str()?);
      (a != b).then(|| mk(format!("{} vs permuted {}", a.short(), b.short())))
    }
    "cbor-member-order" => {
      let d = unhex(case["doc"].as_str()?);
      let a = cbor_slice(text, &d);
      let b = cbor_slice(case["permuted_schema"].as_str()?, &d);
      (a != b).then(|| mk(format!("{} vs {}", a.short(), b.short())))
    }
    "json-member-order" => {
      let d = case["json"].as_str()?;
      let a = json_str(text, d);
      let b = json_str(case["permuted_schema"].as_str()?, d);
      (a != b).then(|| mk(format!("{} vs {}", a.short(), b.short())))
    }
    _ => None,
  }
}
