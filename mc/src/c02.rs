//! C02 — CBOR validation verdicts equal RFC 8610 semantics on the core language, and do not
//! depend on which valid encoding of the item was supplied.
//! Part 1 (model): every (schema, CBOR data item) state is judged by the reference matcher R
//! and replayed on the real CBORValidator. Part 2 (relational): every encoding of an item with
//! <= 2 deviations from preferred serialization must get the verdict of the preferred one,
//! through the byte-level entry point.
use crate::cborref::*;
use crate::core::*;
use crate::docs::*;
use crate::refmodel::*;
use crate::space::*;
use crate::terms::*;
use crate::verdicts::*;
use serde_json::json;
use std::collections::BTreeMap;

pub const F_ORDER: &str = "C02-map-claims-in-encoding-order";
pub const F_CHOICE: &str = "C02-map-group-choice";
pub const F_MIN2: &str = "C02-map-single-key-member-min-occurrence-above-one-accepted";

pub fn cbor_cfg() -> Cfg {
  let mut c = core_cfg();
  c.atoms.extend([
    name("bstr"),
    name("bytes"),
    T2::Lit(Lit::BytesUtf8("a".into())),
    T2::Lit(Lit::BytesHex(vec![1])),
    T2::Major(0, None),
    T2::Major(1, None),
    T2::Major(2, None),
    T2::Major(3, None),
    T2::Major(4, None),
    T2::Major(5, None),
    T2::Major(6, None),
    T2::Major(7, None),
    T2::Major(7, Some(20)),
    T2::Major(7, Some(22)),
    T2::Major(7, Some(23)),
    T2::Major(7, Some(32)),
    T2::AnyHash,
    name("undefined"),
    name("unsigned"),
    name("integer"),
    int(9223372036854775807),
    int(9223372036854775808),
    int(18446744073709551615),
    int(-9223372036854775808),
  ]);
  c.t1s.extend([
    range(int(0), int(18446744073709551615), true),
    range(int(-9223372036854775808), int(0), true),
    ctl(name("bstr"), "size", int(1)),
    ctl(name("uint"), "size", int(8)),
    ctl(name("int"), "ge", int(9223372036854775807)),
  ]);
  c.map_keys.extend([Key::Arrow(t1(int(1)), false), Key::Arrow(t1(name("int")), false), Key::Arrow(t1(name("bstr")), false), Key::Arrow(t1(name("uint")), true)]);
  c.tags = vec![TagNum::Any, TagNum::Lit(1), TagNum::Lit(2), TagNum::Lit(99)];
  c
}

/// maps of 2-3 members over members with non-text key types (CBOR only)
pub fn cbor_map_family() -> Vec<Ty> {
  let kv = |occ: Occ, k: T2, cut: bool, t: T2| Entry { occ, kind: EK::Val(Some(Key::Arrow(t1(k), cut)), ty1(t)) };
  let ms = vec![
    kv(Occ::Star, name("uint"), false, name("any")),
    kv(Occ::Opt, name("tstr"), false, name("int")),
    kv(Occ::Star, name("tstr"), false, name("tstr")),
    kv(Occ::One, int(1), false, name("tstr")),
    kv(Occ::Opt, int(1), true, name("int")),
    kv(Occ::Star, name("int"), false, name("int")),
    kv(Occ::One, name("bstr"), false, name("any")),
    kv(Occ::Plus, name("int"), false, name("any")),
    kv(Occ::One, name("tstr"), false, name("any")),
    kv(Occ::Star, name("any"), false, name("int")),
    Entry { occ: Occ::One, kind: EK::Val(Some(Key::Bare("a".into())), ty1(name("int"))) },
    // literal-key members with a nullable repetition (their absence must not relax what follows) and a second required key
    Entry { occ: Occ::Star, kind: EK::Val(Some(Key::Bare("a".into())), ty1(name("int"))) },
    Entry { occ: Occ::Range(None, Some(1)), kind: EK::Val(Some(Key::Arrow(t1(text("b")), false)), ty1(name("tstr"))) },
    Entry { occ: Occ::Range(Some(0), Some(2)), kind: EK::Val(Some(Key::Bare("c".into())), ty1(name("any"))) },
    Entry { occ: Occ::One, kind: EK::Val(Some(Key::Bare("b".into())), ty1(name("tstr"))) },
  ];
  let mut out = vec![];
  for a in &ms {
    for b in &ms {
      out.push(ty1(T2::Map(Grp(vec![vec![a.clone(), b.clone()]]))));
      for c in &ms {
        out.push(ty1(T2::Map(Grp(vec![vec![a.clone(), b.clone(), c.clone()]]))));
      }
    }
  }
  out
}

pub fn cbor_universe(tier: Tier) -> Vec<RV> {
  let mut d = json_universe(Tier::Quick);
  d.extend(cbor_extra(tier));
  d.push(RV::Tag(2, Box::new(RV::Bytes(vec![1]))));
  d.push(RV::Tag(3, Box::new(RV::Bytes(vec![1]))));
  d.push(RV::Map(vec![(RV::Uint(1), RV::Uint(1)), (RV::Text("a".into()), RV::Uint(1))]));
  d.push(RV::Map(vec![(RV::Uint(1), RV::Text("x".into())), (RV::Uint(2), RV::Uint(1))]));
  d.push(RV::Map(vec![(RV::Uint(1), RV::Uint(0)), (RV::Text("x".into()), RV::Text("y".into()))]));
  d.push(RV::Map(vec![(RV::Text("x".into()), RV::Text("y".into())), (RV::Uint(1), RV::Uint(0))]));
  d.push(RV::Map(vec![(RV::Uint(1), RV::Uint(0)), (RV::Uint(2), RV::Uint(0)), (RV::Text("x".into()), RV::Uint(1))]));
  d.push(RV::Map(vec![(RV::Uint(1), RV::Text("a".into())), (RV::Text("a".into()), RV::Uint(1)), (RV::Bytes(vec![1]), RV::Uint(1))]));
  d
}

fn dup_key(v: &RV) -> bool {
  match v {
    RV::Map(es) => (0..es.len()).any(|i| (0..i).any(|j| es[i].0 == es[j].0)) || es.iter().any(|(_, x)| dup_key(x)),
    RV::Array(xs) => xs.iter().any(dup_key),
    RV::Tag(_, x) => dup_key(x),
    _ => false,
  }
}

pub const F_UNDEF: &str = "C02-undefined-is-null";

fn has_undefined(v: &RV) -> bool {
  match v {
    RV::Simple(23) => true,
    RV::Array(a) => a.iter().any(has_undefined),
    RV::Map(m) => m.iter().any(|(k, x)| has_undefined(k) || has_undefined(x)),
    RV::Tag(_, x) => has_undefined(x),
    _ => false,
  }
}

/// Recorded findings. (1) the decoder folds `undefined` into null (recorded under C11), so an
/// item holding undefined is validated as if it held null: attributed iff the item holds
/// undefined AND R's verdict on the item with undefined replaced by null equals the observed
/// one. (2)/(3) the map-matching defects recorded under C01/C10 (greedy claiming by type-keyed
/// members in member / encoding order; commitment to the first alternative of a group choice):
/// attributed only for schemas with a map and only on the committed state lists.
fn classify(schema: &Schema, text: &str, doc: &RV, exp: Tri, got: &Obs) -> Option<String> {
  if has_undefined(doc) {
    fn fold(v: &RV) -> RV {
      match v {
        RV::Simple(23) => RV::Simple(22),
        RV::Array(a) => RV::Array(a.iter().map(fold).collect()),
        RV::Map(m) => RV::Map(m.iter().map(|(k, x)| (fold(k), fold(x))).collect()),
        RV::Tag(t, x) => RV::Tag(*t, Box::new(fold(x))),
        _ => v.clone(),
      }
    }
    let folded = Model::new(schema).verdict(&fold(doc));
    let same = matches!((folded, got), (Tri::Acc, Obs::Ok) | (Tri::Rej, Obs::Invalid));
    if same {
      return Some(F_UNDEF.into());
    }
  }
  if !text.contains('{') {
    return None;
  }
  if (exp, got) == (Tri::Rej, &Obs::Ok) && crate::patterns::explains_min2(schema, doc) {
    return Some(F_MIN2.into());
  }
  let k = statelist::key(&[text, &rv_to_diag(doc)]);
  match (exp, got) {
    (Tri::Acc, Obs::Invalid) | (Tri::Rej, Obs::Ok) => {
      if text.contains("//") && statelist::listed(F_CHOICE, k) {
        return Some(F_CHOICE.into());
      }
      if text.contains("=>") && statelist::listed(F_ORDER, k) {
        return Some(F_ORDER.into());
      }
      None
    }
    _ => None,
  }
}

#[derive(Default)]
struct Acc {
  v: VAcc,
  pairs: u64,
  judged: u64,
  dc: u64,
  nontrivial: u64,
  obs: BTreeMap<String, u64>,
  dc_why: BTreeMap<&'static str, u64>,
  samples: Vec<serde_json::Value>,
}

fn sweep(run: &mut Run, tys: &[Ty], lib: &[RuleT], docs: &[RV], label: &str) {
  // the items are delivered by the crate's own decoder (preferred encoding -> decode_cbor)
  let items = decoded_items(docs);
  let accs = par_sweep(tys.len(), 16, Acc::default, |i, a: &mut Acc| {
    let schema = assemble(tys[i].clone(), lib);
    let text = schema.render();
    let obs = match cbor_many_values(&text, &items) {
      Ok(o) => o,
      Err(e) => {
        a.v.push(Viol { kind: "cbor-verdict".into(), case: json!({"schema": text, "cbor": "f6"}), observed: format!("generated schema does not parse: {e}"), expected: "parses".into(), finding: None });
        return;
      }
    };
    let m = Model::new(&schema);
    let (mut acc, mut rej) = (0, 0);
    for (d, o) in docs.iter().zip(&obs) {
      a.pairs += 1;
      let (mut exp, mut why) = m.verdict_why(d);
      if exp != Tri::DC && dup_key(d) {
        // a map holding the same key twice is not valid CBOR; how cuts and single-key members
        // treat the second pair is not settled by the texts: counted, not judged (C10 judges
        // the order-independence and no-collapse rules on such maps without a model)
        exp = Tri::DC;
        why = "duplicate map key";
      }
      if exp == Tri::DC {
        a.dc += 1;
        *a.dc_why.entry(why).or_insert(0) += 1;
      } else {
        a.judged += 1;
      }
      match o {
        Obs::Ok => acc += 1,
        Obs::Invalid => rej += 1,
        _ => {}
      }
      *a.obs.entry(format!("R={:?} impl={}", exp, o.short().split('(').next().unwrap_or(""))).or_insert(0) += 1;
      let bad = match (exp, o) {
        (_, Obs::Panic(_)) => true,
        (Tri::DC, _) => false,
        (_, Obs::Other(_)) => true,
        (Tri::Acc, Obs::Ok) | (Tri::Rej, Obs::Invalid) => false,
        _ => true,
      };
      if bad {
        a.v.push(Viol {
          kind: "cbor-verdict".into(),
          case: json!({"schema": text, "cbor": hex(&preferred(d)), "diag": rv_to_diag(d)}),
          observed: o.short(),
          expected: format!("{:?}", exp),
          finding: classify(&schema, &text, d, exp, o),
        });
      }
    }
    if acc > 0 && rej > 0 {
      a.nontrivial += docs.len() as u64;
    }
    if a.samples.len() < 2 && i % 911 == 3 {
      let k = i % docs.len();
      a.samples.push(json!({"schema": text, "item": rv_to_diag(&docs[k]), "reference": format!("{:?}", m.verdict(&docs[k])), "impl": obs[k].short()}));
    }
  });
  let mut obs: BTreeMap<String, u64> = run.extra.get("distinct_observations").and_then(|x| serde_json::from_value(x.clone()).ok()).unwrap_or_default();
  let mut why: BTreeMap<String, u64> = run.extra.get("dont_care_reasons").and_then(|x| serde_json::from_value(x.clone()).ok()).unwrap_or_default();
  for a in accs {
    run.absorb(a.v);
    run.states += a.pairs;
    run.traces += a.pairs;
    run.nontrivial += a.nontrivial;
    run.add("judged", a.judged);
    run.add("dont_care", a.dc);
    for (k, v) in a.obs {
      *obs.entry(k).or_insert(0) += v;
    }
    for (k, v) in a.dc_why {
      *why.entry(k.to_string()).or_insert(0) += v;
    }
    for s in a.samples {
      run.sample(s);
    }
  }
  run.set("distinct_observations", json!(obs));
  run.set("dont_care_reasons", json!(why));
  run.set(&format!("schemas_{label}"), json!(tys.len()));
}

/// Part 2: encoding independence through the byte-level entry point
fn encodings_part(run: &mut Run, tier: Tier) {
  let schemas: Vec<String> = vec![
    "r = any", "r = int", "r = uint", "r = nint", "r = float", "r = number", "r = tstr", "r = bstr", "r = bool", "r = nil", "r = [* any]", "r = [* int]", "r = [int, tstr]",
    "r = {* any => any}", "r = {* tstr => int}", "r = {a: int, ? b: tstr}", "r = {1 => tstr, * int => any}", "r = #6.1(int)", "r = #6(any)", "r = #6.99(tstr)", "r = #0", "r = #1", "r = #2",
    "r = #3", "r = #4", "r = #5", "r = #6", "r = #7", "r = 1", "r = 1.5", "r = \"a\"", "r = 'a'", "r = 0..255", "r = 0..18446744073709551615", "r = 1.0..2.0", "r = tstr .size 1",
    "r = bstr .size (1..2)", "r = uint .size 2", "r = int .lt 256", "r = float .ge 1.5", "r = 65536", "r = -256", "r = [* [* tstr]]", "r = {a: {* tstr => [* int]}}",
    "r = [+ (int, tstr)]", "r = {* int => int}", "r = [1*3 uint]", "r = #6.2(bstr)", "r = unsigned", "r = {\"a\" ^ => int, * tstr => tstr}",
  ]
  .into_iter()
  .map(|s| format!("{s}\n"))
  .collect();
  let docs = cbor_universe(tier);
  #[derive(Default)]
  struct A {
    v: VAcc,
    items: u64,
    encs: u64,
    varied: u64,
    samples: Vec<serde_json::Value>,
  }
  let budget = 2;
  let accs = par_sweep(docs.len(), 1, A::default, |i, a: &mut A| {
    let d = &docs[i];
    let pref = preferred(d);
    let mut encs: Vec<Vec<u8>> = encodings(d, budget).into_iter().map(|x| x.0).filter(|e| e.len() < 400).collect();
    encs.sort();
    encs.dedup();
    a.items += 1;
    for s in &schemas {
      let base = cbor_slice(s, &pref);
      for e in &encs {
        a.encs += 1;
        let o = cbor_slice(s, e);
        if o != base {
          a.v.push(Viol {
            kind: "cbor-encoding".into(),
            case: json!({"schema": s, "preferred": hex(&pref), "encoding": hex(e), "diag": rv_to_diag(d)}),
            observed: format!("preferred encoding: {}, this encoding: {}", base.short(), o.short()),
            expected: "the same verdict for every encoding of the item".into(),
            finding: None,
          });
          break;
        }
      }
    }
    if encs.len() > 1 {
      a.varied += 1;
    }
    if a.samples.is_empty() && encs.len() > 3 && i % 37 == 5 {
      a.samples.push(json!({"item": rv_to_diag(d), "encodings": encs.iter().take(4).map(|e| hex(e)).collect::<Vec<_>>()}));
    }
  });
  let (mut items, mut encs, mut varied) = (0, 0, 0);
  for a in accs {
    run.absorb(a.v);
    items += a.items;
    encs += a.encs;
    varied += a.varied;
    for s in a.samples {
      run.sample(s);
    }
  }
  run.states += items * schemas.len() as u64;
  run.transitions += encs;
  run.traces += encs;
  run.set("encoding_part", json!({"items": items, "items_with_more_than_one_encoding": varied, "schemas": schemas.len(), "encodings_validated": encs, "deviation_bound": budget}));
}

pub fn run(tier: Tier) -> i32 {
  quiet_panics();
  let mut run = Run::new("C02", tier, "model_checking");
  let cfg = cbor_cfg();
  let w = std::env::var("VERIF_W").ok().and_then(|s| s.parse().ok()).unwrap_or(tier.pick(3usize, 4usize));
  let en = Enum::new(&cfg, w);
  let docs = cbor_universe(tier);
  let lib = helper_rules();
  for k in 1..=w {
    let tys = en.types(k);
    sweep(&mut run, tys, &lib, &docs, &format!("weight_{k}"));
    run.transitions += tys.len() as u64 * docs.len() as u64;
  }
  {
    let fam = crate::c01::map_family(Tier::Quick);
    sweep(&mut run, &fam, &lib, &docs, "map_family");
    run.transitions += fam.len() as u64 * docs.len() as u64;
    let fam = cbor_map_family();
    sweep(&mut run, &fam, &lib, &docs, "cbor_map_family");
    run.transitions += fam.len() as u64 * docs.len() as u64;
  }
  recursion_part(&mut run, tier);
  encodings_part(&mut run, tier);
  run.evaluations = run.states;
  run.set("documents", json!(docs.len()));
  run.rule = format!(
    "Part 1: state = (schema, CBOR data item). Schemas: every type term of weight <= {w} over the C01 core alphabet extended by bstr/bytes, byte-string literals, \
     #0..#7, #7.20/22/23/32, #, undefined, unsigned, integer, integer literals and ranges at the 2^63 / 2^64 boundaries, non-text map keys (1 =>, int =>, bstr =>, uint ^ =>) and \
     tags #6(t) #6.1(t) #6.2(t) #6.99(t); plus the C01 map family and a CBOR map family (every map of 2-3 members over 15 members keyed by uint / int / tstr / bstr / any types, integer literals and cuts). Items are delivered by the crate's own decoder (preferred encoding -> decode_cbor), so decoding is inside the checked path. Items: the JSON universe plus byte strings, simple values incl. undefined, non-finite and width-boundary floats, \
     integers at every head-width boundary up to 2^64-1 / -2^64, tags 0/1/2/3/99, maps with non-text, duplicate and equivalent keys ({} items). Every state is judged by the reference \
     matcher R and replayed on the real CBORValidator. Recursion family: 7 self-referential schemas (through a tag, an array, a map value, a choice, as first rule or behind an alias) x every nesting of tag 9 / tag 10 / array / map to depth 3 (4) over 4 leaves, judged by hand-written recursive predicates. Part 2: for every item, every encoding with <= 2 deviations from preferred serialization (non-minimal heads, indefinite \
     lengths, chunked strings, wider floats) is validated through validate_cbor_from_slice against 50 schemas and must get the verdict of the preferred encoding. \
     transition = one (schema, item) pairing / one deviating encoding. non-trivial = states of schemas that accept some and reject some item.",
    docs.len()
  );
  run.assumptions = vec![
    "R encodes my reading of RFC 8610; float16/32/64 and #7.25-27 against floats, tag-based prelude types and #n.m for n < 7 are don't-care".into(),
  ];
  run.finish()
}

/// recursive rules (through a tag, an array, a map value, a choice): the reference is the obvious recursive predicate,
/// written by hand per schema; items = every nesting of the constructors to depth 3 over a few leaves
fn recursion_part(run: &mut Run, tier: Tier) {
  use crate::cborref::RV;
  fn int(v: &RV) -> bool {
    matches!(v, RV::Uint(_) | RV::Nint(_))
  }
  fn w_tag(v: &RV) -> bool {
    int(v) || matches!(v, RV::Tag(9, inner) if w_tag(inner))
  }
  fn w_arr(v: &RV) -> bool {
    int(v) || matches!(v, RV::Array(a) if a.iter().all(w_arr))
  }
  fn w_map(v: &RV) -> bool {
    int(v) || matches!(v, RV::Map(m) if m.len() <= 1 && m.iter().all(|(k, x)| *k == RV::Text("a".into()) && w_map(x)))
  }
  fn w_mixed(v: &RV) -> bool {
    matches!(v, RV::Text(_)) || matches!(v, RV::Tag(9, inner) if matches!(&**inner, RV::Array(a) if a.iter().all(w_mixed)))
  }
  let schemas: Vec<(&str, fn(&RV) -> bool)> = vec![
    ("r = w\nw = #6.9(w) / int\n", w_tag),
    ("w = #6.9(w) / int\n", w_tag),
    ("r = w\nw = int / #6.9(w)\n", w_tag),
    ("r = [* r] / int\n", w_arr),
    ("r = int / [* r]\n", w_arr),
    ("r = {? a: r} / int\n", w_map),
    ("r = tstr / #6.9([* r])\n", w_mixed),
  ];
  // items: closure of the leaves under the constructors, depth <= 3
  let leaves = vec![RV::Uint(1), RV::Nint(0), RV::Text("x".into()), RV::Simple(22)];
  let mut level: Vec<RV> = leaves.clone();
  let mut items: Vec<RV> = leaves;
  for _ in 0..tier.pick(3, 4) {
    let mut next = vec![];
    for v in &level {
      next.push(RV::Tag(9, Box::new(v.clone())));
      next.push(RV::Tag(10, Box::new(v.clone())));
      next.push(RV::Array(vec![v.clone()]));
      next.push(RV::Array(vec![RV::Uint(1), v.clone()]));
      next.push(RV::Map(vec![(RV::Text("a".into()), v.clone())]));
    }
    next.push(RV::Array(vec![]));
    next.push(RV::Map(vec![]));
    next.dedup();
    items.extend(next.iter().cloned());
    level = next;
  }
  let vals = crate::verdicts::decoded_items(&items);
  for (schema, pred) in schemas {
    let got = match crate::verdicts::cbor_many_values(schema, &vals) {
      Ok(g) => g,
      Err(e) => {
        run.viol(Viol { kind: "cbor-verdict".into(), case: json!({"schema": schema}), observed: format!("schema rejected: {e}"), expected: "accepted".into(), finding: None });
        continue;
      }
    };
    for (v, o) in items.iter().zip(got.iter()) {
      run.states += 1;
      run.transitions += 1;
      run.nontrivial += 1;
      let want = pred(v);
      if o.accepted() != Some(want) {
        run.viol(Viol {
          kind: "cbor-verdict".into(),
          case: json!({"schema": schema, "cbor": hex(&crate::cborref::preferred(v)), "diag": crate::cborref::rv_to_diag(v), "family": "recursion"}),
          observed: o.short(),
          expected: if want { "Acc" } else { "Rej" }.into(),
          finding: None,
        });
      }
    }
  }
  run.set("recursion_family", json!({"schemas": 7, "items": items.len()}));
}

pub fn replay(case: &serde_json::Value, kind: &str) -> Option<Viol> {
  let s = case["schema"].as_str()?;
  if kind == "cbor-encoding" {
    let a = cbor_slice(s, &unhex(case["preferred"].as_str()?));
    let b = cbor_slice(s, &unhex(case["encoding"].as_str()?));
    return (a != b).then(|| Viol { kind: kind.into(), case: case.clone(), observed: format!("{} vs {}", a.short(), b.short()), expected: "same".into(), finding: None });
  }
  let o = cbor_slice(s, &unhex(case["cbor"].as_str()?));
  Some(Viol { kind: kind.into(), case: case.clone(), observed: o.short(), expected: "see replay file (the reference verdict needs the generator's term)".into(), finding: None })
}
