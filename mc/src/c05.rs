//! C05 — no entry point panics, aborts, overflows the stack or hangs.
//! Every case runs in a worker subprocess (`mc c05-worker <family> <lo> <hi>`): the worker
//! prints the case index before it starts a case, so a death of the worker (abort on
//! allocation failure, stack overflow, kill by the watchdog) is attributed to that case; the
//! parent restarts a worker behind it. Panics are caught in the worker and reported.
use crate::core::*;
use serde_json::json;
use std::io::{BufRead, BufReader, Write};
use std::process::{Command, Stdio};
use std::time::{Duration, Instant};

#[derive(Clone)]
pub struct Case {
  /// entry point: decode | cbor | json | csv | parse | parsefmt | parent
  pub ep: &'static str,
  pub schema: String,
  pub doc: Vec<u8>,
}

pub const FAMILIES: [&str; 7] = ["bytes", "hostile", "rulegraphs", "depth", "size", "text", "opmatrix"];

fn c(ep: &'static str, schema: &str, doc: &[u8]) -> Case {
  Case { ep, schema: schema.to_string(), doc: doc.to_vec() }
}

// ------------------------------------------------------------------ families

fn fam_bytes(tier: Tier) -> Vec<Case> {
  let mut out = vec![];
  let maxlen = tier.pick(2usize, 2usize);
  for len in 0..=maxlen {
    for i in 0..256usize.pow(len as u32) {
      let mut b = vec![0u8; len];
      let mut x = i;
      for k in (0..len).rev() {
        b[k] = (x & 0xff) as u8;
        x >>= 8;
      }
      out.push(c("decode", "", &b));
      out.push(c("cbor", "a = any\n", &b));
      if len <= 1 || i % 7 == 0 {
        out.push(c("cbor", "a = [* {* tstr => any}] / tstr / #6.1(time)\n", &b));
      }
    }
  }
  out
}

fn head(mt: u8, ai: u8, n: u64) -> Vec<u8> {
  let mut v = vec![(mt << 5) | ai];
  match ai {
    24 => v.push(n as u8),
    25 => v.extend_from_slice(&(n as u16).to_be_bytes()),
    26 => v.extend_from_slice(&(n as u32).to_be_bytes()),
    27 => v.extend_from_slice(&n.to_be_bytes()),
    _ => {}
  }
  v
}

fn fam_hostile(_tier: Tier) -> Vec<Case> {
  let lens: [u64; 14] = [0, 1, 23, 24, 255, 256, 65535, 65536, 1 << 31, (1 << 32) - 1, 1 << 32, 1 << 36, 1 << 63, u64::MAX];
  let prefixes: Vec<Vec<u8>> = vec![
    vec![],
    vec![0x81],
    vec![0x9f],
    vec![0xa1, 0x01],
    vec![0xbf, 0x61, 0x61],
    vec![0x5f],
    vec![0x7f],
    vec![0x5f, 0x41, 0x00],
    vec![0x7f, 0x61, 0x61],
    vec![0xc1],
    vec![0x82, 0x01],
    vec![0x81, 0x81, 0x81],
    vec![0x9f, 0x9f, 0xbf, 0x01],
  ];
  let tails: Vec<Vec<u8>> = vec![vec![], vec![0x61], vec![0x61, 0x62], vec![0x61, 0x62, 0xff], vec![0xff]];
  let mut out = vec![];
  for p in &prefixes {
    for mt in 2u8..=5 {
      for ai in [24u8, 25, 26, 27] {
        for &n in &lens {
          let fits = match ai {
            24 => n < 256,
            25 => n < 65536,
            26 => n < (1 << 32),
            _ => true,
          };
          if !fits {
            continue;
          }
          for t in &tails {
            let mut b = p.clone();
            b.extend(head(mt, ai, n));
            b.extend(t);
            out.push(c("decode", "", &b));
            out.push(c("cbor", "a = any\n", &b));
          }
        }
      }
    }
  }
  // tag 1 with every integer / float boundary (time conversion)
  for arg in [0u64, 1, 1 << 31, 1 << 32, 1 << 53, (1 << 63) - 1, 1 << 63, u64::MAX] {
    for mt in [0u8, 1] {
      let mut b = vec![0xc1];
      b.extend(head(mt, 27, arg));
      for s in ["a = time\n", "a = #6.1(int)\n", "a = any\n", "a = tdate / time\n"] {
        out.push(c("cbor", s, &b));
      }
    }
  }
  for f in [f64::MAX, f64::MIN, f64::INFINITY, f64::NEG_INFINITY, f64::NAN, 1e300, -1e300, 9.3e18, -9.3e18] {
    let mut b = vec![0xc1, 0xfb];
    b.extend_from_slice(&f.to_bits().to_be_bytes());
    out.push(c("cbor", "a = time\n", &b));
    out.push(c("json", "a = time\n", format!("{:e}", f).replace("inf", "1e999").replace("NaN", "null").as_bytes()));
  }
  for j in ["9223372036854775807", "-9223372036854775808", "9223372036854776", "1e308", "18446744073709551615", "1e19", "-1e19"] {
    out.push(c("json", "a = time\n", j.as_bytes()));
    out.push(c("json", "a = tdate / time / uint\n", j.as_bytes()));
  }
  out
}

/// all rule graphs of <= 3 rules whose bodies reference each other through every construct
fn fam_rulegraphs(tier: Tier) -> Vec<Case> {
  let tbodies = [
    "@", "@ .size 3", "@ .eq 1", "@ .lt 2", "[@]", "[* @]", "{a: @}", "{@ => @}", "{* @ => int}", "@ / int", "int / @", "~@", "&@", "@<int>", "#6.1(@)", "0..@", "@ .and @", "tstr .regexp @",
    "@ .default 1", "(@)", "[? @, @]",
  ];
  let gbodies = ["(@)", "(? int, @)", "(a: @)", "(* @)", "(@ // int)", "(@, @)"];
  let names = ["a", "b", "c"];
  let docs_j = ["1", "\"x\"", "[]", "[1]", "[[1]]", "{}", "{\"a\":1}", "{\"a\":{\"a\":1}}", "null", "[1,2,3]", "{\"a\":[1]}", "1.5"];
  let mut schemas: Vec<String> = vec![];
  let nb = tbodies.len() + gbodies.len();
  let body = |k: usize, target: &str| -> String {
    if k < tbodies.len() {
      tbodies[k].replace('@', target)
    } else {
      gbodies[k - tbodies.len()].replace('@', target)
    }
  };
  // 1 and 2 rules exhaustively; 3 rules: quick = bodies of a fixed third rule set
  for k1 in 0..nb {
    for t1 in 0..1 {
      schemas.push(format!("a = {}\n", body(k1, names[t1])));
    }
  }
  for k1 in 0..nb {
    for k2 in 0..nb {
      for (x, y) in [("b", "a"), ("b", "b"), ("a", "b")] {
        schemas.push(format!("a = {}\nb = {}\n", body(k1, x), body(k2, y)));
      }
    }
  }
  let third: Vec<usize> = if tier == Tier::Thorough { (0..nb).collect() } else { vec![0, 1, 4, 21, 22] };
  for k1 in 0..nb {
    for k2 in 0..nb {
      for &k3 in &third {
        schemas.push(format!("a = {}\nb = {}\nc = {}\n", body(k1, "b"), body(k2, "c"), body(k3, "a")));
        // a cycle that does not pass through the root: b -> c -> b
        schemas.push(format!("a = {}\nb = {}\nc = {}\n", body(k1, "b"), body(k2, "c"), body(k3, "b")));
      }
    }
  }
  let mut out = vec![];
  for s in &schemas {
    out.push(c("parsefmt", s, b""));
    for d in docs_j {
      out.push(c("json", s, d.as_bytes()));
      let v: serde_json::Value = serde_json::from_str(d).unwrap();
      let mut b = vec![];
      ciborium::ser::into_writer(&v, &mut b).unwrap();
      out.push(c("cbor", s, &b));
    }
  }
  out
}

fn fam_depth(tier: Tier) -> Vec<Case> {
  let depths: Vec<usize> = tier.pick(vec![1, 2, 4, 8, 16, 32, 64], (1..=64).collect());
  // the last four carry an operator at every level (target side and controller side)
  let kinds: [(&str, &str); 12] = [
    ("[", "]"), ("{a: ", "}"), ("(", ")"), ("[(", ")]"), ("&(a: ", ")"), ("#6.1(", ")"), ("m<", ">"), ("[* ", "]"),
    ("[", "] .size 1"), ("(", ") .ne 1"), ("{a: ", "} .eq 1"), ("int .and (", ")"),
  ];
  let mut out = vec![];
  for &d in &depths {
    for (o, cl) in kinds {
      let s = format!("a = {}int{}\nm<t> = [t]\n", o.repeat(d), cl.repeat(d));
      out.push(c("parsefmt", &s, b""));
      out.push(c("parent", &s, b""));
      // matching documents
      let jd = format!("{}1{}", "[".repeat(d), "]".repeat(d));
      out.push(c("json", &s, jd.as_bytes()));
      let mut cb = vec![0x81u8; d];
      cb.push(1);
      out.push(c("cbor", &s, &cb));
      let jm = format!("{}1{}", "{\"a\":".repeat(d), "}".repeat(d));
      out.push(c("json", &s, jm.as_bytes()));
    }
    // alternating kinds
    let s = format!("a = {}int{}\n", "[{a: ".repeat(d / 2 + 1), "}]".repeat(d / 2 + 1));
    out.push(c("parsefmt", &s, b""));
    let jd = format!("{}1{}", "[{\"a\":".repeat(d / 2 + 1), "}]".repeat(d / 2 + 1));
    out.push(c("json", &s, jd.as_bytes()));
    out.push(c("json", "a = any\n", jd.as_bytes()));
    out.push(c("json", "a = int / [* a] / {* tstr => a}\n", jd.as_bytes()));
    // documents only (schema `any` and a recursive schema), CBOR: arrays, maps, tags, indefinite
    for unit in [vec![0x81u8], vec![0xa1, 0x01], vec![0xc1], vec![0x9f], vec![0xbf, 0x01]] {
      let mut b = vec![];
      for _ in 0..d {
        b.extend(&unit);
      }
      b.push(0x01);
      for _ in 0..d {
        if unit[0] == 0x9f || unit[0] == 0xbf {
          b.push(0xff);
        }
      }
      out.push(c("decode", "", &b));
      out.push(c("cbor", "a = any\n", &b));
      out.push(c("cbor", "a = int / [* a] / {* int => a} / #6.1(a)\n", &b));
    }
    // deep type choice / group choice / occurrence chains
    let s = format!("a = {}\n", vec!["int"; d].join(" / "));
    out.push(c("parsefmt", &s, b""));
    let s = format!("a = [{}]\n", vec!["int"; d].join(" // "));
    out.push(c("parsefmt", &s, b""));
    out.push(c("json", &s, b"[1]"));
  }
  out
}

fn fam_size(tier: Tier) -> Vec<Case> {
  // doubling families up to 64 KiB (quick: 8 KiB); the worker reports the time of every case,
  // the parent checks the growth ratio
  let max = tier.pick(8 * 1024usize, 64 * 1024usize);
  let mut out = vec![];
  let mut n = 64;
  while n <= max {
    let k = n / 8;
    out.push(c("parsefmt", &format!("a = \"{}\"\n", "x".repeat(n)), b""));
    out.push(c("parsefmt", &format!("; {}\na = int\n", "c".repeat(n)), b""));
    out.push(c("parsefmt", &(0..k).map(|i| format!("r{i} = int\n")).collect::<String>(), b""));
    out.push(c("parsefmt", &format!("a = {}\n", (0..k).map(|i| format!("{i}")).collect::<Vec<_>>().join(" / ")), b""));
    out.push(c("parsefmt", &format!("a = {{{}}}\n", (0..k).map(|i| format!("k{i}: int")).collect::<Vec<_>>().join(", ")), b""));
    let chain = (0..k).map(|i| format!("r{i} = r{}\n", i + 1)).collect::<String>() + &format!("r{k} = int\n");
    out.push(c("json", &chain, b"1"));
    out.push(c("json", &chain, b"\"x\""));
    let arr = format!("[{}]", vec!["1"; k].join(","));
    out.push(c("json", "a = [* int]\n", arr.as_bytes()));
    out.push(c("json", "a = [* (int // int, int)]\n", arr.as_bytes()));
    out.push(c("json", "a = [* int, tstr]\n", arr.as_bytes()));
    out.push(c("json", "a = [* (? int, ? int)]\n", arr.as_bytes()));
    let obj = format!("{{{}}}", (0..k).map(|i| format!("\"k{i}\":1")).collect::<Vec<_>>().join(","));
    out.push(c("json", "a = {* tstr => int}\n", obj.as_bytes()));
    out.push(c("json", "a = {* tstr => int, * tstr => tstr}\n", obj.as_bytes()));
    let mut cb = vec![0x99, (k >> 8) as u8, k as u8];
    cb.extend(std::iter::repeat(0x01).take(k));
    out.push(c("cbor", "a = [* int]\n", &cb));
    out.push(c("cbor", "a = [* (int // int, int)]\n", &cb));
    let mut cm = vec![0xb9, (k >> 8) as u8, k as u8];
    for i in 0..k {
      cm.extend([0x19, (i >> 8) as u8, i as u8, 0x01]);
    }
    out.push(c("cbor", "a = {* int => int}\n", &cm));
    out.push(c("cbor", "a = {* uint => int, * int => tstr, ? 1 => any}\n", &cm));
    out.push(c("json", "a = tstr .regexp \"(a|aa)*b\"\n", format!("\"{}\"", "a".repeat(k.min(2000))).as_bytes()));
    out.push(c("csv", "a = [* [* tstr]]\n", vec!["a,b,c"; k].join("\n").as_bytes()));
    n *= 2;
  }
  out
}

fn fam_text(_tier: Tier) -> Vec<Case> {
  // out-of-range / malformed controller arguments and document texts
  let mut out = vec![];
  for (s, d) in [
    ("a = tstr .regexp \"(\"\n", "\"x\""),
    ("a = tstr .regexp \"[\"\n", "\"x\""),
    ("a = tstr .pcre \"(?<=a\"\n", "\"x\""),
    ("a = tstr .abnf \"x\"\n", "\"x\""),
    ("a = tstr .abnf \"a\\n\"\n", "\"x\""),
    ("a = tstr .abnf \"a\\na = \"\n", "\"x\""),
    ("a = tstr .abnf \"a\\na = %x\"\n", "\"x\""),
    ("a = tstr .abnf \"zz\\na = \\\"x\\\"\\n\"\n", "\"x\""),
    ("a = tstr .abnf b\nb = 1\n", "\"x\""),
    ("a = bstr .abnfb \"a\\na = %xFF\\n\"\n", "\"x\""),
    ("a = tdate\n", "\"9999-99-99T99:99:99Z\""),
    ("a = tdate\n", "\"\""),
    ("a = uri\n", "\"\""),
    ("a = uri\n", "\":\""),
    ("a = uri\n", "\"a:b:c://[::\""),
    ("a = b64url\n", "\"!!!\""),
    ("a = tstr .size 18446744073709551615\n", "\"x\""),
    ("a = uint .size 100\n", "1"),
    ("a = uint .bits b\nb = &(x: 18446744073709551615)\n", "1"),
    ("a = int .lt 9223372036854775807\n", "1"),
    ("a = 0..18446744073709551615\n", "1"),
    ("a = 1 .plus 18446744073709551615\n", "1"),
    ("a = \"a\" .cat 1\n", "\"a1\""),
    ("a = [18446744073709551615* int]\n", "[1]"),
    ("a = [*18446744073709551615 int]\n", "[1]"),
    ("a = tstr .feature 1\n", "\"x\""),
    ("a = tstr .default [1]\n", "\"x\""),
    ("a = #6.18446744073709551615(int)\n", "1"),
    ("a = #7.18446744073709551615\n", "1"),
    ("a = {* a => a}\n", "{\"a\":{}}"),
    ("a = b\n", "1"),
    ("a = [* b]\n", "[1]"),
    ("a<t> = t\n", "1"),
    ("a = a<int>\n", "1"),
    ("a = m<int, int>\nm<t> = t\n", "1"),
    ("a = m\nm<t> = t\n", "1"),
  ] {
    out.push(c("json", s, d.as_bytes()));
    let v: serde_json::Value = serde_json::from_str(d).unwrap();
    let mut b = vec![];
    ciborium::ser::into_writer(&v, &mut b).unwrap();
    out.push(c("cbor", s, &b));
    out.push(c("parsefmt", s, b""));
    out.push(c("parent", s, b""));
  }
  for d in ["", "\u{feff}1", "1e999", "-", "[", "{\"a\"", "\"\\ud800\"", "nul", "[1,]", "\u{0}"] {
    out.push(c("json", "a = any\n", d.as_bytes()));
  }
  for d in ["\"", "a,\"b", "\u{feff}a", "a\r\rb", ",,,,", "\"\"\"\"", "a\n\"b\nc", "\u{0}"] {
    out.push(c("csv", "a = [* [* tstr]]\n", d.as_bytes()));
  }
  for s in ["", " ", ";", "a", "a =", "a = (", "a = [", "a = \"", "a = 'a", "a = h'0", "a = b64'A", "a = #6.", "a = 1..", "a = .size", "\u{feff}a = int", "a = int\u{0}", "a\u{0} = int", "a = \"\\u{ffffffffff}\"", "a = 0x", "a = 1e99999999999", "a = -0x1p99999999999", "$$$ = int", "a<> = int", "a = b<>", "a = ~", "a = &", "a = #"] {
    out.push(c("parsefmt", s, b""));
    out.push(c("json", s, b"1"));
  }
  out
}

/// every registered control operator x target kind x controller shape x document (both validators): the operators each
/// have their own code path that slices, decodes or unwraps its operands
fn fam_opmatrix(tier: Tier) -> Vec<Case> {
  let targets: Vec<&str> = match tier {
    Tier::Quick => vec!["tstr", "bstr", "uint", "any", "[int]"],
    Tier::Thorough => vec!["tstr", "bstr", "uint", "int", "float", "any", "[int]", "{a: int}", "b"],
  };
  let controllers: Vec<&str> = match tier {
    Tier::Quick => vec!["1", "\"a\"", "\"\"", "'ab'", "[\"%d\", 1]", "int", "(1..2)", "b"],
    Tier::Thorough => vec!["1", "-1", "1.5", "\"a\"", "\"\"", "'ab'", "h''", "[1]", "[\"%d\", 1]", "[\"a\", \"b\"]", "int", "tstr", "(1..2)", "b", "{a: 1}"],
  };
  let docs = ["\"\"", "\"a\"", "\"\\u00e9\"", "\"\\u20ac\\u20ac\"", "\"ab\"", "\"YWI\"", "\"12\"", "\"-\"", "\"0\"", "\"a\\nb\"", "0", "1", "-1", "1.5", "true", "null", "[]", "[1]", "{}", "{\"a\":1}"];
  let mut out = vec![];
  for op in crate::syn::CONTROL_NAMES {
    for t in &targets {
      for ctl in &controllers {
        let schema = format!("a = {t} .{op} {ctl}\nb = \"x\"\n");
        for d in docs {
          out.push(c("json", &schema, d.as_bytes()));
          let v: serde_json::Value = serde_json::from_str(d).unwrap();
          let mut b = vec![];
          ciborium::ser::into_writer(&v, &mut b).unwrap();
          out.push(c("cbor", &schema, &b));
        }
      }
    }
  }
  // byte-string documents for the operators that take bytes (CBOR only)
  for op in crate::syn::CONTROL_NAMES {
    for ctl in &controllers {
      let schema = format!("a = bstr .{op} {ctl}\nb = \"x\"\n");
      for d in [&b"\x40"[..], &b"\x41\x01"[..], &b"\x42\xc3\xa9"[..], &b"\x43\xff\xfe\xfd"[..]] {
        out.push(c("cbor", &schema, d));
      }
    }
  }
  out
}

pub fn family(name: &str, tier: Tier) -> Vec<Case> {
  match name {
    "bytes" => fam_bytes(tier),
    "hostile" => fam_hostile(tier),
    "rulegraphs" => fam_rulegraphs(tier),
    "depth" => fam_depth(tier),
    "size" => fam_size(tier),
    "opmatrix" => fam_opmatrix(tier),
    _ => fam_text(tier),
  }
}

// ------------------------------------------------------------------ worker

fn run_case(c: &Case) -> Result<(), String> {
  catch(|| match c.ep {
    "decode" => {
      let _ = cddl::validator::cbor_value::decode_cbor(&c.doc);
    }
    "cbor" => {
      let _ = cddl::validate_cbor_from_slice(&c.schema, &c.doc, None);
    }
    "json" => {
      let _ = cddl::validate_json_from_str(&c.schema, std::str::from_utf8(&c.doc).unwrap_or(""), None);
    }
    "csv" => {
      let _ = cddl::validate_csv_from_str(&c.schema, std::str::from_utf8(&c.doc).unwrap_or(""), Some(false), None);
      let _ = cddl::validate_csv_from_str(&c.schema, std::str::from_utf8(&c.doc).unwrap_or(""), Some(true), None);
    }
    "parent" => {
      if let Ok(a) = cddl::cddl_from_str(&c.schema, false) {
        let _ = cddl::ast::parent::ParentVisitor::new(&a);
      }
    }
    _ => {
      if let Ok(a) = cddl::cddl_from_str(&c.schema, false) {
        let s = a.to_string();
        let _ = cddl::cddl_from_str(&s, false).map(|b| b.to_string());
      }
      let _ = cddl::ast::CDDL::from_slice(c.schema.as_bytes());
    }
  })
}

/// `mc c05-worker <family> <tier> <lo> <hi>`: prints "S <i>" before and "D <i> <micros> [P <panic>]" after each case
pub fn worker_main(args: &[String]) {
  quiet_panics();
  let tier = if args[1] == "thorough" { Tier::Thorough } else { Tier::Quick };
  let cases = family(&args[0], tier);
  let lo: usize = args[2].parse().unwrap();
  let hi: usize = args[3].parse::<usize>().unwrap().min(cases.len());
  let _g = silence_stderr();
  // 1 GiB address-space style guard is not available portably; allocation failure aborts and is seen by the parent
  let out = std::io::stdout();
  let mut o = out.lock();
  for i in lo..hi {
    let _ = writeln!(o, "S {i}");
    let _ = o.flush();
    let t = Instant::now();
    let r = run_case(&cases[i]);
    let us = t.elapsed().as_micros();
    match r {
      Ok(()) => {
        let _ = writeln!(o, "D {i} {us}");
      }
      Err(p) => {
        let _ = writeln!(o, "D {i} {us} P {}", p.replace('\n', " "));
      }
    }
  }
  let _ = o.flush();
}

// ------------------------------------------------------------------ parent

pub struct Outcome {
  pub idx: usize,
  pub micros: u128,
  /// None = returned normally; Some(kind, detail)
  pub bad: Option<(String, String)>,
}

/// run cases lo..hi of a family in worker processes; a worker death is attributed to the case in flight
fn run_range(fam: &str, tier: Tier, lo: usize, hi: usize, per_case_limit: Duration) -> Vec<Outcome> {
  let exe = std::env::current_exe().unwrap();
  let mut out = vec![];
  let mut next = lo;
  while next < hi {
    let mut child = match Command::new(&exe)
      .args(["c05-worker", fam, tier.name(), &next.to_string(), &hi.to_string()])
      .stdout(Stdio::piped())
      .stderr(Stdio::null())
      .spawn()
    {
      Ok(c) => c,
      Err(e) => {
        out.push(Outcome { idx: next, micros: 0, bad: Some(("engine".into(), format!("cannot spawn worker: {e}"))) });
        return out;
      }
    };
    let stdout = child.stdout.take().unwrap();
    // reader thread -> channel, so that the parent can time out on a silent worker
    let (tx, rx) = std::sync::mpsc::channel::<String>();
    let rd = std::thread::spawn(move || {
      for l in BufReader::new(stdout).lines().map_while(Result::ok) {
        if tx.send(l).is_err() {
          break;
        }
      }
    });
    let mut in_flight: Option<usize> = None;
    let mut finished = false;
    loop {
      match rx.recv_timeout(per_case_limit) {
        Ok(l) => {
          let mut it = l.split(' ');
          match it.next() {
            Some("S") => in_flight = it.next().and_then(|x| x.parse().ok()),
            Some("D") => {
              let idx: usize = it.next().and_then(|x| x.parse().ok()).unwrap_or(next);
              let micros: u128 = it.next().and_then(|x| x.parse().ok()).unwrap_or(0);
              let bad = if it.next() == Some("P") { Some(("panic".to_string(), it.collect::<Vec<_>>().join(" "))) } else { None };
              out.push(Outcome { idx, micros, bad });
              in_flight = None;
              next = idx + 1;
            }
            _ => {}
          }
        }
        Err(std::sync::mpsc::RecvTimeoutError::Timeout) => {
          // no progress within the limit: the case in flight hangs (or is far too slow)
          let _ = child.kill();
          let idx = in_flight.unwrap_or(next);
          out.push(Outcome { idx, micros: per_case_limit.as_micros(), bad: Some(("hang".into(), format!("no return within {} s", per_case_limit.as_secs()))) });
          next = idx + 1;
          break;
        }
        Err(std::sync::mpsc::RecvTimeoutError::Disconnected) => {
          finished = true;
          break;
        }
      }
    }
    let status = child.wait();
    let _ = rd.join();
    if finished {
      match in_flight {
        Some(idx) => {
          // the worker died inside case idx
          let how = match status {
            Ok(s) => {
              use std::os::unix::process::ExitStatusExt;
              match s.signal() {
                Some(6) => "abort (SIGABRT: stack overflow guard or allocation failure)".to_string(),
                Some(11) => "SIGSEGV (stack overflow)".to_string(),
                Some(9) => "SIGKILL".to_string(),
                Some(sig) => format!("signal {sig}"),
                None => format!("exit status {:?}", s.code()),
              }
            }
            Err(e) => format!("wait failed: {e}"),
          };
          out.push(Outcome { idx, micros: 0, bad: Some(("crash".into(), how)) });
          next = idx + 1;
        }
        None => {
          if next < hi && !matches!(status, Ok(s) if s.success()) {
            out.push(Outcome { idx: next, micros: 0, bad: Some(("engine".into(), "worker ended early without a case in flight".into())) });
          }
          break;
        }
      }
    }
  }
  out
}

fn case_json(c: &Case) -> serde_json::Value {
  json!({"entry_point": c.ep, "schema": if c.schema.len() > 600 { format!("{}… ({} bytes)", &c.schema[..c.schema.char_indices().nth(300).map(|x| x.0).unwrap_or(0)], c.schema.len()) } else { c.schema.clone() },
         "doc_hex": if c.doc.len() > 300 { format!("{}… ({} bytes)", hex(&c.doc[..150]), c.doc.len()) } else { hex(&c.doc) },
         "doc_text": std::str::from_utf8(&c.doc).ok().map(|s| s.chars().take(200).collect::<String>())})
}

/// closed vocabulary of recorded C05 findings
pub const F_CHAIN: &str = "C05-long-alias-chain-overflows-the-stack";

/// Recorded finding: the validators recurse once per alias hop, so a chain of some thousand
/// alias rules (r0 = r1, r1 = r2, ...) overflows the stack. Attributed only to a crash of a
/// validation entry point on a schema that is such a chain of more than 1000 rules.
fn classify(c: &Case, kind: &str, detail: &str) -> Option<String> {
  let _ = detail;
  if kind == "crash" && (c.ep == "json" || c.ep == "cbor") {
    let lines: Vec<&str> = c.schema.lines().collect();
    let chain = lines.len() > 1000
      && lines.iter().take(lines.len() - 1).enumerate().all(|(i, l)| *l == format!("r{i} = r{}", i + 1));
    if chain {
      return Some(F_CHAIN.into());
    }
  }
  None
}

pub fn run(tier: Tier) -> i32 {
  quiet_panics();
  let mut run = Run::new("C05", tier, "fault_enumeration");
  let limit = Duration::from_secs(20);
  let mut fam_stats = serde_json::Map::new();
  for fam in FAMILIES {
    if let Ok(only) = std::env::var("VERIF_FAMILY") {
      if only != fam {
        continue;
      }
    }
    let cases = family(fam, tier);
    let n = cases.len();
    let chunk = (n / (ncpu() * 4)).max(50);
    let ranges: Vec<(usize, usize)> = (0..n).step_by(chunk).map(|lo| (lo, (lo + chunk).min(n))).collect();
    let results = par_sweep(ranges.len(), 1, Vec::new, |i, acc: &mut Vec<Outcome>| {
      acc.extend(run_range(fam, tier, ranges[i].0, ranges[i].1, limit));
    });
    let mut times: Vec<(usize, u128)> = vec![];
    let (mut done, mut bad) = (0u64, 0u64);
    for r in results.into_iter().flatten() {
      done += 1;
      times.push((r.idx, r.micros));
      if let Some((kind, detail)) = r.bad {
        bad += 1;
        let cse = &cases[r.idx];
        if kind == "engine" {
          run.notes.push(format!("ENGINE: family {fam} case {}: {detail}", r.idx));
          run.exhaustive = false;
          continue;
        }
        run.viol(Viol {
          kind: kind.clone(),
          case: json!({"family": fam, "index": r.idx, "tier": tier.name(), "case": case_json(cse)}),
          observed: format!("{kind}: {detail}"),
          expected: "returns Ok or Err".into(),
          finding: classify(cse, &kind, &detail),
        });
      }
    }
    // growth: within the size family the same generator position recurs every `per_round` cases
    if fam == "size" {
      // the generators are emitted in the same order in every doubling round
      let rounds = {
        let max = tier.pick(8 * 1024usize, 64 * 1024usize);
        let mut r = 0;
        let mut n = 64;
        while n <= max {
          r += 1;
          n *= 2;
        }
        r
      };
      let per_round = n / rounds.max(1);
      times.sort();
      let t_of = |i: usize| times.iter().find(|x| x.0 == i).map(|x| x.1).unwrap_or(0);
      for g in 0..per_round {
        for r in 1..rounds {
          let (i0, i1) = ((r - 1) * per_round + g, r * per_round + g);
          let (t0, t1) = (t_of(i0), t_of(i1));
          if t0 >= 50_000 && t1 > t0 * 16 {
            // confirm twice, alone (the sweep runs 16 workers in parallel: machine noise must not raise an alarm)
            let mut confirmed = true;
            let mut last = (t0, t1);
            for _ in 0..2 {
              let a = run_range(fam, tier, i0, i0 + 1, limit).first().map(|o| o.micros).unwrap_or(0);
              let b = run_range(fam, tier, i1, i1 + 1, limit).first().map(|o| o.micros).unwrap_or(0);
              last = (a, b);
              if !(a >= 50_000 && b > a * 16) {
                confirmed = false;
                break;
              }
            }
            if !confirmed {
              continue;
            }
            let cse = &cases[i1];
            run.viol(Viol {
              kind: "superpolynomial".into(),
              case: json!({"family": fam, "index": i1, "tier": tier.name(), "case": case_json(cse)}),
              observed: format!("input doubled: {} us -> {} us (x{:.1}), confirmed twice alone", last.0, last.1, last.1 as f64 / last.0.max(1) as f64),
              expected: "time grows at most by 16x when the input doubles (degree <= 4)".into(),
              finding: None,
            });
          }
        }
      }
    }
    run.states += done;
    run.evaluations += done;
    run.nontrivial += done;
    if run.samples.len() < 10 && n > 0 {
      run.sample(json!({"family": fam, "case": case_json(&cases[n / 2])}));
    }
    fam_stats.insert(fam.to_string(), json!({"cases": n, "completed": done, "not_returning_normally": bad, "slowest_us": times.iter().map(|x| x.1).max().unwrap_or(0)}));
  }
  run.transitions = run.states;
  run.set("families", serde_json::Value::Object(fam_stats));
  run.rule = "case = (entry point, schema text, document bytes), run in an isolated worker process under a 20 s watchdog. Families: bytes (every byte string of length <= 2 into \
    decode_cbor and validate_cbor_from_slice with three schemas); hostile (every container / string head width x 14 announced lengths up to 2^64-1 x 13 nesting prefixes incl. inside \
    indefinite strings x 5 payload tails; tag 1 with integer and float boundaries; JSON time boundaries); rulegraphs (every document of 1 and 2 rules, and 3-rule cycles, whose bodies \
    reference each other through 27 constructs: alias, controls, arrays, maps, keys, choices, unwrap, group-to-choice, generic application, tags, range bounds, group rules - each parsed, \
    formatted, checked and validated against 12 JSON / CBOR documents); depth (12 bracket kinds, four of them with an operator at every level, and 5 CBOR nestings at depths 1..64, deep choices); size (20 generators doubling up to 8 KiB \
    (thorough 64 KiB): long literals, comments, many rules, alias chains, wide choices / maps, long arrays against backtracking-prone groups, wide maps, regex, CSV); text (malformed \
    controller arguments, out-of-range numbers, undefined / ill-applied generics, malformed JSON / CSV / CDDL texts). Oracle: the call returns (Ok or Err): no panic, no abort, no signal, \
    no watchdog kill; within the size family time may grow at most 16x when the input doubles (once above 50 ms). non-trivial = cases completed."
    .into();
  run.finish()
}

pub fn replay(case: &serde_json::Value) -> Option<Viol> {
  let fam = case["family"].as_str()?;
  let idx = case["index"].as_u64()? as usize;
  let tier = if case["tier"] == "thorough" { Tier::Thorough } else { Tier::Quick };
  let r = run_range(fam, tier, idx, idx + 1, Duration::from_secs(20));
  r.into_iter().find_map(|o| o.bad.map(|(k, d)| Viol { kind: k.clone(), case: case.clone(), observed: format!("{k}: {d}"), expected: "returns Ok or Err".into(), finding: None }))
}
