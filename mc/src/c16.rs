//! C16 — comments are recognised only as comments and survive formatting intact.
//! state = (document, comment placement). Placements: every inter-token gap of the document
//! receives one of three comment spellings (one gap at a time; thorough: also all pairs of
//! gaps for the small documents).
use crate::core::*;
use crate::shape;
use crate::syn::*;
use crate::terms::*;
use serde_json::json;
use std::collections::BTreeMap;

/// insert explicit spaces at every place where the grammar allows `S`, so that every
/// inter-token gap of the document is a space character of the text
pub fn spaced(text: &str) -> String {
  // outside string / byte literals: spaces after "[", "{", "(", "<", "," and before "]", "}", ")", ">"
  let mut out = String::new();
  let b: Vec<char> = text.chars().collect();
  let mut i = 0;
  let mut quote: Option<char> = None;
  while i < b.len() {
    let c = b[i];
    if let Some(q) = quote {
      out.push(c);
      if c == '\\' && i + 1 < b.len() {
        out.push(b[i + 1]);
        i += 2;
        continue;
      }
      if c == q {
        quote = None;
      }
      i += 1;
      continue;
    }
    match c {
      '"' | '\'' => {
        quote = Some(c);
        out.push(c);
      }
      '[' | '{' => {
        out.push(c);
        out.push(' ');
      }
      // "(" opens a group / parenthesised type - but not the content of a tag "#6.1(" (no S before "(" there is needed; S inside is allowed)
      '(' | '<' if c == '(' || (i > 0 && (b[i - 1].is_alphanumeric() || b[i - 1] == '-')) => {
        out.push(c);
        out.push(' ');
      }
      ']' | '}' | ')' => {
        out.push(' ');
        out.push(c);
      }
      '>' if i > 0 && b[i - 1] != '=' && out.ends_with(|x: char| x != ' ') && !(i + 1 < b.len() && b[i + 1] == '=') && in_generic(&b, i) => {
        out.push(' ');
        out.push(c);
      }
      _ => out.push(c),
    }
    i += 1;
  }
  out
}
/// is the '>' at position i the end of a generic argument / parameter list (not part of "=>")?
fn in_generic(b: &[char], i: usize) -> bool {
  // scan back to the matching '<' on the same line without crossing "=>"
  let mut k = i;
  while k > 0 {
    k -= 1;
    match b[k] {
      '<' => return !(k > 0 && b[k - 1] == '.'), // "#1.<n>": no S inside a type-parameter reference
      '\n' | '=' | '{' | '[' => return false,
      _ => {}
    }
  }
  false
}

/// indexes of the gap characters (spaces / line breaks outside literals)
pub fn gaps(text: &str) -> Vec<usize> {
  let mut out = vec![];
  let mut quote: Option<char> = None;
  let b: Vec<(usize, char)> = text.char_indices().collect();
  let mut k = 0;
  while k < b.len() {
    let (i, c) = b[k];
    if let Some(q) = quote {
      if c == '\\' {
        k += 2;
        continue;
      }
      if c == q {
        quote = None;
      }
    } else if c == '"' || c == '\'' {
      quote = Some(c);
    } else if c == ' ' || c == '\n' {
      out.push(i);
    }
    k += 1;
  }
  out
}

pub const SPELLINGS: [&str; 3] = [" ;@\n ", " ; @ ; more\n ", "\n;@\n"];

pub fn place(text: &str, gap: usize, spelling: &str, tag: &str) -> String {
  let mut s = String::with_capacity(text.len() + 16);
  s.push_str(&text[..gap]);
  s.push_str(&spelling.replace('@', tag));
  s.push_str(&text[gap + 1..]);
  s
}

fn viol(kind: &str, base: &str, text: &str, observed: String, expected: &str) -> Viol {
  let mut v = Viol { kind: kind.into(), case: json!({"cddl": text, "comment_free": base}), observed, expected: expected.into(), finding: None };
  v.finding = classify(&v);
  v
}

pub const F_LAYOUT: &str = "C16-formatter-drops-line-break-after-comment";
pub const F_ATTACH: &str = "C16-comment-not-attached-or-attached-twice";

/// recorded findings, attributed only on the committed state lists (key = commented text)
fn classify(v: &Viol) -> Option<String> {
  let k = statelist::key(&[v.case["cddl"].as_str().unwrap_or("")]);
  match v.kind.as_str() {
    kind if kind.contains("format-") => {
      if statelist::listed(F_LAYOUT, k) {
        return Some(F_LAYOUT.into());
      }
    }
    "comment-attached-twice" | "comment-text-changed" => {
      if statelist::listed(F_ATTACH, k) {
        return Some(F_ATTACH.into());
      }
    }
    _ => {}
  }
  None
}

/// comment texts (without ';') found by an independent scan of a text: ';' outside literals up to the line end
pub fn scan_comments(text: &str) -> Vec<String> {
  let mut out = vec![];
  let mut quote: Option<char> = None;
  let mut it = text.chars().peekable();
  while let Some(c) = it.next() {
    if let Some(q) = quote {
      if c == '\\' {
        it.next();
      } else if c == q {
        quote = None;
      }
      continue;
    }
    match c {
      '"' | '\'' => quote = Some(c),
      ';' => {
        let mut s = String::new();
        while let Some(&d) = it.peek() {
          if d == '\n' {
            break;
          }
          s.push(d);
          it.next();
        }
        out.push(s.trim_end_matches('\r').to_string());
      }
      _ => {}
    }
  }
  out
}

pub enum Out {
  Skipped,
  Held,
  Bad(Viol),
}

pub fn check(base: &str, base_shape: &str, text: &str, tags: &[&str]) -> Out {
  let a = match catch(|| cddl::cddl_from_str(text, false)) {
    Ok(Ok(a)) => a,
    Ok(Err(e)) => return Out::Bad(viol("commented-text-rejected", base, text, format!("rejected: {}", trunc(&e)), "accepted: a comment may stand wherever the grammar allows S")),
    Err(p) => return Out::Bad(viol("panic", base, text, format!("PANIC {p}"), "Ok or Err")),
  };
  let n = shape::cddl(&a);
  let sh = n.shape();
  if sh != base_shape {
    return Out::Bad(viol("comment-changes-ast", base, text, crate::c06::first_diff(base_shape, &sh), "the same rules, choices and entries as the comment-free document"));
  }
  // each source comment attached to at most one node, text unchanged
  let attached = n.all_comments();
  for tag in tags {
    let hits: Vec<&(&str, &str, String)> = attached.iter().filter(|(_, _, c)| c.contains(tag)).collect();
    if hits.len() > 1 {
      return Out::Bad(viol(
        "comment-attached-twice",
        base,
        text,
        format!("comment {tag:?} is attached to {:?}", hits.iter().map(|(k, f, _)| format!("{k}.{f}")).collect::<Vec<_>>()),
        "each comment is attached to at most one AST node",
      ));
    }
    if let Some((k, f, c)) = hits.first() {
      let src = scan_comments(text).into_iter().find(|s| s.contains(tag)).unwrap_or_default();
      if *c != src {
        return Out::Bad(viol("comment-text-changed", base, text, format!("{k}.{f} holds {:?} for the source comment {:?}", c, src), "the comment text unchanged"));
      }
    }
  }
  // formatting, and formatting of the formatted text (itself a document with comments)
  let s1 = match format_laws(base, base_shape, text, text, &a, &attached, tags, "") {
    Ok(s) => s,
    Err(v) => return Out::Bad(v),
  };
  let a2 = match catch(|| cddl::cddl_from_str(&s1, false)) {
    Ok(Ok(x)) => x,
    _ => return Out::Held, // unreachable: format_laws has parsed it
  };
  let attached2 = shape::cddl(&a2).all_comments();
  match format_laws(base, base_shape, text, &s1, &a2, &attached2, tags, "second-") {
    Ok(_) => Out::Held,
    Err(v) => Out::Bad(v),
  }
}

/// the formatting half of the property for one parsed document `a` of text `src`: the formatted text is accepted, has the base
/// shape, and contains every attached comment exactly once as a comment
#[allow(clippy::too_many_arguments)]
fn format_laws(base: &str, base_shape: &str, text: &str, src: &str, a: &cddl::ast::CDDL, attached: &[(&str, &str, String)], tags: &[&str], gen: &str) -> Result<String, Viol> {
  let s1 = match catch(|| a.to_string()) {
    Ok(s) => s,
    Err(p) => return Err(viol("panic", base, text, format!("format PANIC {p} on {src:?}"), "formatted text")),
  };
  let a2 = match catch(|| cddl::cddl_from_str(&s1, false)) {
    Ok(Ok(x)) => x,
    Ok(Err(e)) => return Err(viol(&format!("{gen}format-rejected"), base, text, format!("formatted {:?} is rejected: {}", s1, trunc(&e)), "the formatted text is accepted")),
    Err(p) => return Err(viol("panic", base, text, format!("PANIC on formatted text: {p}"), "Ok or Err")),
  };
  let sh2 = shape::cddl(&a2).shape();
  if sh2 != base_shape {
    return Err(viol(
      &format!("{gen}format-changes-ast"),
      base,
      text,
      format!("formatted {:?} parses to {}", s1, crate::c06::first_diff(base_shape, &sh2)),
      "the formatted text parses to the same rules, choices and entries (no comment absorbs code, no code becomes comment)",
    ));
  }
  let out_comments = scan_comments(&s1);
  for tag in tags {
    let att: Option<&String> = attached.iter().find(|(_, _, c)| c.contains(tag)).map(|(_, _, c)| c);
    let was_attached = att.is_some();
    // emitted exactly once AS A COMMENT OF ITS OWN: a comment line whose text is the attached text (a comment glued to
    // another one is comment text, not a comment)
    let n_out = match att {
      Some(c) => out_comments.iter().filter(|o| o.trim_end() == c.trim_end()).count(),
      None => out_comments.iter().filter(|c| c.contains(tag)).count(),
    };
    if was_attached && n_out != 1 {
      return Err(viol(
        &format!("{gen}format-duplicates-or-drops-comment"),
        base,
        text,
        format!("attached comment {tag:?} of {src:?} appears {n_out} times as a comment in {:?}", s1),
        "every attached comment is emitted exactly once, as a comment",
      ));
    }
    if !was_attached && n_out > 1 {
      return Err(viol(&format!("{gen}format-duplicates-or-drops-comment"), base, text, format!("comment {tag:?} appears {n_out} times in {:?}", s1), "at most once"));
    }
  }
  Ok(s1)
}

#[derive(Default)]
struct Acc {
  v: VAcc,
  docs: u64,
  placements: u64,
  attached: u64,
  kinds: BTreeMap<String, u64>,
  samples: Vec<serde_json::Value>,
}

pub fn documents(tier: Tier) -> Vec<String> {
  let cfg = syntax_cfg(Tier::Quick);
  let w = std::env::var("VERIF_W").ok().and_then(|s| s.parse().ok()).unwrap_or(tier.pick(3usize, 4usize));
  let en = Enum::new(&cfg, w);
  let mut d = docs_types(&en, w);
  d.extend(docs_headers(&en, 2));
  d.extend(docs_multi(Tier::Quick));
  d.extend(docs_operators().into_iter().step_by(7));
  d.extend(docs_nested());
  // only texts the parser accepts; spaced spelling must keep the shape
  d
}

/// choices, operators and groups inside every bracket kind, two levels deep (the term enumeration reaches these only at weight 4-5)
pub fn docs_nested() -> Vec<String> {
  let inner = ["int / tstr", "int / tstr / bool", "1 .. 2", "tstr .size 3", "x: int / tstr", "x: int, y: tstr / bool", "a: 1 // b: 2", "* int / tstr", "? x: int // tstr"];
  let boxes = ["( _ )", "[ _ ]", "{ _ }", "#6.1( _ )", "n< _ >", "m< int, _ >", "{ _ => int }", "[ * ( _ ) ]", "&( _ )", "{ k: ( _ ), y: bool }", "[ ( _ ), bool ]", "( _ ) / bool", "bool / ( _ )"];
  let mut out = vec![];
  for i in inner {
    for b in boxes {
      let t = b.replace('_', i);
      out.push(format!("r = {t}\nm<a, b> = [a, b]\nn<a> = a\n"));
      for b2 in ["[ _ ]", "{ z: _ }", "( _ )"] {
        out.push(format!("r = {}\n", b2.replace('_', &t)));
      }
    }
  }
  // wide groups: three group choices, more than three entries (the printer switches layout at both thresholds)
  for w in ["a: int // b: tstr // c: bool", "int // tstr // bool", "a: int, b: tstr, c: bool, d: nil", "a: 1, b: 2 // c: 3, d: 4 // e: 5", "a: int, b: tstr, c: bool, d: nil // e: int", "a: 1, b: 2, c: 3, d: 4 // e: 5 // f: 6",
    // literals holding the other quote character, and entries with nested structure, in a group of three choices
    "\"it's\", tstr // 'say \"hi', int // bool", "a: { k: int, l: tstr } // b: [ int, tstr ] // c: int / tstr"] {
    for b in ["{ _ }", "[ _ ]", "&( _ )"] {
      out.push(format!("r = {}\n", b.replace('_', w)));
    }
    out.push(format!("g = ( {w} )\nr = int\n"));
  }
  for i in inner {
    out.push(format!("g = ( {i} )\nr = int\n"));
    out.push(format!("g<t> = ( {i} )\nr = int\n"));
  }
  out
}

pub fn run(tier: Tier) -> i32 {
  quiet_panics();
  let mut run = Run::new("C16", tier, "model_checking");
  let docs = documents(tier);
  let accs = par_sweep(docs.len(), 16, Acc::default, |i, a: &mut Acc| {
    let base = &docs[i];
    let Ok(Ok(ast)) = catch(|| cddl::cddl_from_str(base, false)) else { return };
    let base_shape = shape::cddl(&ast).shape();
    let sp = spaced(base);
    // the explicit spaces must not change the document (harness sanity; skip the document otherwise)
    match catch(|| cddl::cddl_from_str(&sp, false)) {
      Ok(Ok(x)) if shape::cddl(&x).shape() == base_shape => {}
      _ => {
        *a.kinds.entry("spaced_spelling_not_equivalent_skipped".into()).or_insert(0) += 1;
        if std::env::var("VERIF_DEBUG").is_ok() {
          eprintln!("SKIP {:?} -> {:?}", base, sp);
        }
        return;
      }
    }
    a.docs += 1;
    let gs = gaps(&sp);
    // deviation bound 1: one comment, every gap, every spelling
    for &g in &gs {
      for sp_i in 0..SPELLINGS.len() {
        let text = place(&sp, g, SPELLINGS[sp_i], "c1");
        a.placements += 1;
        match check(&sp, &base_shape, &text, &["c1"]) {
          Out::Held => {}
          Out::Skipped => {}
          Out::Bad(v) => {
            *a.kinds.entry(v.kind.clone()).or_insert(0) += 1;
            a.v.push(v);
          }
        }
      }
    }
    // two comments in ONE gap: a trailing comment and an own-line comment before the next token (the two slots that
    // meet between an alternative and the next '/', or an entry and the next one)
    for &g in &gs {
      let mut text = String::with_capacity(sp.len() + 24);
      text.push_str(&sp[..g]);
      text.push_str(" ;c1\n ;k2\n ");
      text.push_str(&sp[g + 1..]);
      a.placements += 1;
      if let Out::Bad(v) = check(&sp, &base_shape, &text, &["c1", "k2"]) {
        *a.kinds.entry(v.kind.clone()).or_insert(0) += 1;
        a.v.push(v);
      }
    }
    // deviation bound 2: two comments in all pairs of gaps (small documents; thorough: all documents up to 12 gaps)
    if gs.len() <= tier.pick(6, 12) {
      for x in 0..gs.len() {
        for y in x + 1..gs.len() {
          // insert the later one first so that the earlier index stays valid
          let t1 = place(&sp, gs[y], SPELLINGS[(x + y) % 3], "c2");
          let text = place(&t1, gs[x], SPELLINGS[x % 3], "c1");
          a.placements += 1;
          if let Out::Bad(v) = check(&sp, &base_shape, &text, &["c1", "c2"]) {
            *a.kinds.entry(v.kind.clone()).or_insert(0) += 1;
            a.v.push(v);
          }
        }
      }
    }
    if a.samples.len() < 2 && i % 211 == 5 && !gs.is_empty() {
      a.samples.push(json!({"document": sp, "gaps": gs.len(), "example_placement": place(&sp, gs[gs.len() / 2], SPELLINGS[0], "c1")}));
    }
    let _ = a.attached;
  });
  let mut kinds: BTreeMap<String, u64> = BTreeMap::new();
  for a in accs {
    run.absorb(a.v);
    run.states += a.placements;
    run.transitions += a.placements * 2;
    run.nontrivial += a.placements;
    run.add("documents", a.docs);
    for (k, v) in a.kinds {
      *kinds.entry(k).or_insert(0) += v;
    }
    for s in a.samples {
      run.sample(s);
    }
  }
  run.traces = run.states;
  run.evaluations = run.states;
  run.set("violating_placements_by_kind", json!(kinds));
  run.rule = "state = (document, comment placement). Documents: every type term of weight <= 3 (thorough 4) over the syntax alphabet, rule headers, multi-rule documents, a sample of the \
    control-operator family and nested choices / operators / group choices inside every bracket kind (two levels), respelled with an explicit space at every position where the grammar allows S (after opening and before closing brackets, after commas and operators), so \
    that every inter-token gap is a character of the text. Placements: every gap x three comment spellings (';c' at the end of the line, two comments on one line, a comment on a line \
    of its own), one gap at a time; a trailing plus an own-line comment in the same gap; plus all pairs of gaps for documents with <= 6 (thorough 12) gaps. transitions = parse and format of each state. Oracle: the commented text is \
    accepted and has the comment-free document's shape (rules, choices, entries, operators, literals); each inserted comment is attached to at most one AST node with its text unchanged; \
    the formatted text is accepted, has the same shape, contains every attached comment exactly once as a comment (independent scan for ';' outside literals); the same three laws are then applied to the formatted text as a document of its own (second generation)."
    .into();
  run.finish()
}

pub fn replay(case: &serde_json::Value) -> Option<Viol> {
  let base = case["comment_free"].as_str()?;
  let text = case["cddl"].as_str()?;
  let ast = cddl::cddl_from_str(base, false).ok()?;
  let base_shape = shape::cddl(&ast).shape();
  let tags: Vec<&str> = ["c1", "c2", "k2"].into_iter().filter(|t| text.contains(&format!(";{t}")) || text.contains(&format!("; {t}"))).collect();
  match check(base, &base_shape, text, &tags) {
    Out::Bad(v) => Some(v),
    _ => None,
  }
}

#[allow(dead_code)]
fn unused(_: &Ty) {}
