//! C17 — cddl-derive: generated types round-trip every instance the schema admits; generation is deterministic.
#![allow(dead_code)]
#[path = "/repo/cddl-derive/src/codegen.rs"]
#[allow(dead_code, unused_imports, clippy::all)]
pub mod codegen;

pub fn generate(text: &str) -> Result<String, String> {
  let ast = cddl::cddl_from_str(text, false).map_err(|e| format!("parse: {e}"))?;
  codegen::generate_all_types(&ast, text, &codegen::CodegenOptions::default()).map_err(|e| format!("codegen: {e:?}"))
}
