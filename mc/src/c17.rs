//! C17 — cddl-derive: generated types round-trip every instance the schema admits; generation
//! is a deterministic function of the schema text.
//! state = (schema of the documented mapping subset, JSON instance). The generator is the
//! crate's own `generate_all_types` (cddl-derive/src/codegen.rs compiled into the explorer from
//! /repo's working tree); the generated code of every schema is written into one scratch crate
//! (`mc/target-c17/run`), compiled, and its round-trip function is run on every instance of a
//! value universe that the real JSON validator accepts for the schema.
#![allow(dead_code)]
#[path = "/repo/cddl-derive/src/codegen.rs"]
#[allow(dead_code, unused_imports, clippy::all)]
pub mod codegen;

use crate::core::*;
use serde_json::{json, Value as J};
use std::collections::{BTreeMap, BTreeSet};
use std::process::Command;

pub const WORK: &str = "/verif/mc/target-c17";

pub fn generate(text: &str) -> Result<String, String> {
  let ast = cddl::cddl_from_str(text, false).map_err(|e| format!("parse: {e}"))?;
  codegen::generate_all_types(&ast, text, &codegen::CodegenOptions::default()).map_err(|e| format!("codegen: {e:?}"))
}

// ---------------------------------------------------------------- schema space

const HELPERS: [(&str, &str); 5] = [
  ("child", "child = { a: uint }"),
  ("label", "label = tstr"),
  ("kind", "kind = \"a\" / \"b\""),
  ("my-rule", "my-rule = { ? b: int }"),
  // literals that already are their own PascalCase variant names
  ("level", "level = \"Low\" / \"High\" / \"mid\""),
];

/// field types of the documented mapping table (+ the helper rules they refer to)
const TYPES: [&str; 26] = [
  "tstr", "uint", "int", "float", "bool", "any", "[* tstr]", "[* int]", "{ * tstr => int }", "tstr / null", "child", "label", "kind", "[* child]", "int / tstr",
  "{ * tstr => child }", "[+ int]", "my-rule", "tdate", "time", "uri", "regexp", "b64url", "bstr", "nint", "level",
];
const KEYS: [&str; 6] = ["name", "my-field", "type", "userName", "match", "self"];

#[derive(Clone, Debug)]
pub struct Schema {
  pub text: String,
  /// object keys of the root map (None = the root is not a map)
  pub keys: Option<Vec<String>>,
  pub family: &'static str,
}

fn with_helpers(root: &str) -> String {
  let mut s = format!("root = {root}\n");
  for (n, r) in HELPERS {
    // whole-identifier occurrence
    let used = root.match_indices(n).any(|(i, _)| {
      let b = root.as_bytes();
      let before = i == 0 || !(b[i - 1].is_ascii_alphanumeric() || b[i - 1] == b'-' || b[i - 1] == b'_');
      let j = i + n.len();
      let after = j >= b.len() || !(b[j].is_ascii_alphanumeric() || b[j] == b'-' || b[j] == b'_');
      before && after
    });
    if used {
      s.push_str(r);
      s.push('\n');
    }
  }
  s
}

pub fn schemas(tier: Tier) -> Vec<Schema> {
  let mut out = vec![];
  // F1: one field: every key form x occurrence x type
  for k in KEYS {
    for occ in ["", "? "] {
      for t in TYPES {
        out.push(Schema { text: with_helpers(&format!("{{ {occ}{k}: {t} }}")), keys: Some(vec![k.to_string()]), family: "one-field" });
      }
    }
  }
  // F2: two fields whose Rust names can collide after snake-casing / keyword escaping
  let keys2 = ["a", "my-field", "my_field", "myField", "type", "type_"];
  let types2: Vec<&str> = match tier {
    Tier::Quick => vec!["tstr", "[* int]", "tstr / null"],
    Tier::Thorough => vec!["tstr", "int", "[* int]", "tstr / null", "child", "kind", "{ * tstr => int }"],
  };
  for (i, k1) in keys2.iter().enumerate() {
    for (j, k2) in keys2.iter().enumerate() {
      if i == j {
        continue;
      }
      for o1 in ["", "? "] {
        for o2 in ["", "? "] {
          if tier == Tier::Quick && o1 != o2 {
            continue;
          }
          for t1 in &types2 {
            for t2 in &types2 {
              if tier == Tier::Quick && t1 != t2 && *t1 != "tstr" {
                continue;
              }
              out.push(Schema { text: with_helpers(&format!("{{ {o1}{k1}: {t1}, {o2}{k2}: {t2} }}")), keys: Some(vec![k1.to_string(), k2.to_string()]), family: "two-fields" });
            }
          }
        }
      }
    }
  }
  // F3: root rules that are not maps, recursion, colliding rule names, keyword rule names
  let tops = [
    "root = tstr\n",
    "root = [* int]\n",
    "root = [* child]\nchild = { a: uint }\n",
    "root = { * tstr => int }\n",
    "root = int / tstr\n",
    "root = \"a\" / \"b\" / \"c-d\"\n",
    "root = \"Low\" / \"High\"\n",
    "root = { a: \"Low\" / \"b\" }\n",
    "root = child / null\nchild = { a: uint }\n",
    "root = { v: int, ? kids: [* root] }\n",
    "root = { ? n: node }\nnode = { ? r: root, v: int }\n",
    "root = { a: my-rule, b: my_rule }\nmy-rule = { x: int }\nmy_rule = { y: tstr }\n",
    "root = { a: type, b: match }\ntype = { x: int }\nmatch = tstr\n",
    "root = { a: MyRule, b: my-rule }\nMyRule = { x: int }\nmy-rule = { y: tstr }\n",
    "root = { a: { b: { c: int } } }\n",
    "root = { a: [* [* int]] }\n",
    "root = { a: { * tstr => [* tstr] } }\n",
    "root = { a: child / label }\nchild = { a: uint }\nlabel = tstr\n",
    "root = { a: \"x\" / \"y\" }\n",
    "root = { a: child, ? b: child }\nchild = { ? a: uint, ? c: child }\n",
    "root = { \"quoted key\": int, \"1\": tstr }\n",
    "root = { a: bool / null, ? b: float / null }\n",
  ];
  for t in tops {
    let keys = if t.starts_with("root = {") && !t.starts_with("root = { *") {
      let ast = cddl::cddl_from_str(t, false).ok();
      ast.and_then(|a| root_keys(&a))
    } else {
      None
    };
    out.push(Schema { text: t.to_string(), keys, family: "top-level" });
  }
  out
}

fn root_keys(a: &cddl::ast::CDDL) -> Option<Vec<String>> {
  use cddl::ast::*;
  let Rule::Type { rule, .. } = a.rules.first()? else { return None };
  let Type2::Map { group, .. } = &rule.value.type_choices.first()?.type1.type2 else { return None };
  let mut ks = vec![];
  for (ge, _) in &group.group_choices.first()?.group_entries {
    if let GroupEntry::ValueMemberKey { ge, .. } = ge {
      match &ge.member_key {
        Some(MemberKey::Bareword { ident, .. }) => ks.push(ident.ident.to_string()),
        Some(MemberKey::Value { value, .. }) => ks.push(value.to_string().trim_matches('"').to_string()),
        Some(MemberKey::Type1 { t1, .. }) => {
          if let Type2::TextValue { value, .. } = &t1.type2 {
            ks.push(value.to_string())
          }
        }
        _ => {}
      }
    }
  }
  Some(ks)
}

/// value universe for one member / for non-map roots
pub fn values() -> Vec<J> {
  vec![
    json!(null),
    json!(true),
    json!(0),
    json!(1),
    json!(-1),
    json!(1.5),
    json!(""),
    json!("a"),
    json!("b"),
    json!("c-d"),
    json!("Low"),
    json!("2020-01-01T00:00:00Z"),
    json!("http://a.b/c"),
    json!([]),
    json!([1]),
    json!([1, 2]),
    json!(["a"]),
    json!([1, "a"]),
    json!([[1], []]),
    json!({}),
    json!({"a": 1}),
    json!({"a": "x"}),
    json!({"x": 1, "y": 2}),
    json!({"x": {"a": 1}}),
    json!({"x": ["a"]}),
    json!([{"a": 1}, {"a": 2}]),
    json!({"a": 1, "c": {"a": 2}}),
    json!({"v": 1, "kids": [{"v": 2}]}),
    json!({"n": {"v": 1, "r": {}}}),
    json!({"b": 1}),
    json!({"x": 1}),
    json!({"y": "s"}),
    json!(18446744073709551615u64),
    json!(9223372036854775807i64),
    json!(-9223372036854775808i64),
    json!({"b": {"c": 1}}),
  ]
}

pub fn instances(s: &Schema, vals: &[J]) -> Vec<J> {
  match &s.keys {
    None => vals.to_vec(),
    Some(ks) => {
      // every key absent or holding a universe value (2 keys: full product), + one unknown extra key
      let mut out = vec![];
      let opts: Vec<Option<&J>> = std::iter::once(None).chain(vals.iter().map(Some)).collect();
      let mut idx = vec![0usize; ks.len()];
      loop {
        let mut o = serde_json::Map::new();
        for (k, &i) in ks.iter().zip(idx.iter()) {
          if let Some(v) = opts[i] {
            o.insert(k.clone(), v.clone());
          }
        }
        out.push(J::Object(o));
        let mut p = 0;
        loop {
          if p == idx.len() {
            return out;
          }
          idx[p] += 1;
          if idx[p] < opts.len() {
            break;
          }
          idx[p] = 0;
          p += 1;
        }
      }
    }
  }
}

// ---------------------------------------------------------------- names in generated code

/// (type names, per struct its field names) read off the generated text
fn declared_names(code: &str) -> (Vec<String>, Vec<(String, Vec<String>)>) {
  let mut types = vec![];
  let mut structs: Vec<(String, Vec<String>)> = vec![];
  let mut cur: Option<usize> = None;
  for l in code.lines() {
    let t = l.trim_start();
    let indent = l.len() - t.len();
    for kw in ["pub struct ", "pub enum ", "pub type "] {
      if indent == 0 {
        if let Some(rest) = t.strip_prefix(kw) {
          let name: String = rest.chars().take_while(|c| c.is_alphanumeric() || *c == '_').collect();
          types.push(name.clone());
          if kw == "pub struct " {
            structs.push((name, vec![]));
            cur = Some(structs.len() - 1);
          } else {
            cur = None;
          }
        }
      }
    }
    if indent == 0 && t.starts_with('}') {
      cur = None;
    }
    if let (Some(c), true) = (cur, indent == 4) {
      if let Some(rest) = t.strip_prefix("pub ") {
        if let Some((name, _)) = rest.split_once(':') {
          structs[c].1.push(name.trim().to_string());
        }
      }
    }
  }
  (types, structs)
}

fn duplicates(v: &[String]) -> Vec<String> {
  let mut seen = BTreeSet::new();
  let mut d = BTreeSet::new();
  for x in v {
    if !seen.insert(x.clone()) {
      d.insert(x.clone());
    }
  }
  d.into_iter().collect()
}

// ---------------------------------------------------------------- the scratch crate

fn write_if_changed(path: &str, content: &str) {
  if std::fs::read_to_string(path).map(|c| c == content).unwrap_or(false) {
    return;
  }
  std::fs::write(path, content).expect("write");
}

fn module_text(code: &str) -> String {
  format!(
    "#![allow(dead_code, unused_imports, non_camel_case_types, non_snake_case, clippy::all)]\n{code}\n\
     pub fn rt(v: &serde_json::Value) -> Result<serde_json::Value, String> {{\n    \
       let t: Root = serde_json::from_value(v.clone()).map_err(|e| format!(\"D {{e}}\"))?;\n    \
       serde_json::to_value(&t).map_err(|e| format!(\"S {{e}}\"))\n}}\n"
  )
}

const STUB: &str = "pub fn rt(_: &serde_json::Value) -> Result<serde_json::Value, String> { Err(\"X not compiled\".into()) }\n";

fn write_crate(mods: &[(usize, String)], tier: &str) {
  let root = format!("{WORK}/run-{tier}");
  std::fs::create_dir_all(format!("{root}/src/g")).expect("mkdir");
  write_if_changed(
    &format!("{root}/Cargo.toml"),
    &"[package]\nname = \"c17run-TIER\"\nversion = \"0.1.0\"\nedition = \"2021\"\n\n[workspace]\n\n[dependencies]\nserde = { version = \"1\", features = [\"derive\"] }\nserde_json = \"1\"\nserde_with = { version = \"3\", features = [\"macros\"] }\nciborium = \"0.2\"\n\n[profile.dev]\nopt-level = 0\ndebug = 0\nincremental = true\n".replace("TIER", tier),
  );
  if !std::path::Path::new(&format!("{root}/Cargo.lock")).exists() {
    let _ = std::fs::copy("/repo/Cargo.lock", format!("{root}/Cargo.lock"));
  }
  let mut modrs = String::new();
  let mut table = String::from("pub fn table() -> Vec<(usize, fn(&serde_json::Value) -> Result<serde_json::Value, String>)> {\n    vec![\n");
  for (k, text) in mods {
    write_if_changed(&format!("{root}/src/g/s{k}.rs"), text);
    modrs.push_str(&format!("pub mod s{k};\n"));
    table.push_str(&format!("        ({k}, s{k}::rt),\n"));
  }
  table.push_str("    ]\n}\n");
  modrs.push_str(&table);
  write_if_changed(&format!("{root}/src/g/mod.rs"), &modrs);
  // remove modules of an earlier, larger run
  if let Ok(rd) = std::fs::read_dir(format!("{root}/src/g")) {
    let keep: BTreeSet<String> = mods.iter().map(|(k, _)| format!("s{k}.rs")).chain(std::iter::once("mod.rs".to_string())).collect();
    for e in rd.flatten() {
      let n = e.file_name().to_string_lossy().to_string();
      if !keep.contains(&n) {
        let _ = std::fs::remove_file(e.path());
      }
    }
  }
  write_if_changed(
    &format!("{root}/src/main.rs"),
    "mod g;\nuse std::io::Write;\nfn main() {\n    let path = std::env::args().nth(1).expect(\"instances file\");\n    let inp: serde_json::Value = serde_json::from_str(&std::fs::read_to_string(path).unwrap()).unwrap();\n    \
     let so = std::io::stdout();\n    let mut o = std::io::BufWriter::new(so.lock());\n    std::panic::set_hook(Box::new(|_| {}));\n    for (k, f) in g::table() {\n        let Some(list) = inp[k.to_string()].as_array() else { continue };\n        \
     for (i, v) in list.iter().enumerate() {\n            let r = std::panic::catch_unwind(|| f(v));\n            match r {\n                Ok(Ok(j)) => { let _ = writeln!(o, \"{k} {i} ok {j}\"); }\n                \
     Ok(Err(e)) => { let _ = writeln!(o, \"{k} {i} err {}\", e.replace('\\n', \" \")); }\n                Err(_) => { let _ = writeln!(o, \"{k} {i} err P panic\"); }\n            }\n        }\n    }\n    let _ = o.flush();\n}\n",
  );
}

/// build the scratch crate; returns the module numbers rustc blames, or an engine error
fn build_crate(tier: &str) -> Result<BTreeMap<usize, String>, String> {
  let root = format!("{WORK}/run-{tier}");
  let out = Command::new("cargo")
    .args(["build", "--offline", "--manifest-path", &format!("{root}/Cargo.toml"), "--target-dir", &format!("{WORK}/target"), "--message-format", "short"])
    .env("CARGO_NET_OFFLINE", "true")
    .output()
    .map_err(|e| format!("cargo: {e}"))?;
  if out.status.success() {
    return Ok(BTreeMap::new());
  }
  let err = String::from_utf8_lossy(&out.stderr);
  let mut blamed = BTreeMap::new();
  for l in err.lines() {
    if let Some(p) = l.find("src/g/s") {
      let rest = &l[p + 7..];
      let num: String = rest.chars().take_while(|c| c.is_ascii_digit()).collect();
      if let (Ok(k), true) = (num.parse::<usize>(), l.contains("error")) {
        blamed.entry(k).or_insert_with(|| l.to_string());
      }
    }
  }
  if blamed.is_empty() {
    return Err(err.lines().filter(|l| l.contains("error")).take(8).collect::<Vec<_>>().join(" | "));
  }
  Ok(blamed)
}

// ---------------------------------------------------------------- comparison

/// do two JSON values denote the same data? numbers by value; an optional member holding null and an absent member are
/// not told apart (the mapping table's Option<T> cannot, and the property does not say which of the two valid forms is kept)
fn same_data(a: &J, b: &J) -> bool {
  match (a, b) {
    (J::Number(x), J::Number(y)) => {
      if let (Some(i), Some(j)) = (x.as_i64(), y.as_i64()) {
        return i == j;
      }
      if let (Some(i), Some(j)) = (x.as_u64(), y.as_u64()) {
        return i == j;
      }
      x.as_f64() == y.as_f64()
    }
    (J::Array(x), J::Array(y)) => x.len() == y.len() && x.iter().zip(y).all(|(p, q)| same_data(p, q)),
    (J::Object(x), J::Object(y)) => {
      let keys: BTreeSet<&String> = x.keys().chain(y.keys()).collect();
      keys.into_iter().all(|k| match (x.get(k), y.get(k)) {
        (Some(p), Some(q)) => same_data(p, q),
        (Some(J::Null), None) | (None, Some(J::Null)) => true,
        _ => false,
      })
    }
    _ => a == b,
  }
}

fn observed_is_i64_overflow(msg: &str) -> bool {
  msg.contains("invalid value: integer") || msg.contains("out of range") || msg.contains("did not match any variant")
}

fn valid(schema: &str, v: &J) -> bool {
  catch(|| cddl::validate_json_from_str(schema, &v.to_string(), None).is_ok()).unwrap_or(false)
}

pub const F_INT64: &str = "C17-int-generated-as-i64";
pub const F_TIME: &str = "C17-time-generated-as-i64";
pub const F_PASCAL: &str = "C17-rule-names-colliding-in-pascal-case-are-merged";
pub const F_GSOCKET: &str = "C17-group-rule-and-socket-extensions-share-a-type-name";

/// recorded findings, attributed only on the committed state lists (key = schema text + instance)
fn classify(v: &Viol) -> Option<String> {
  let text = v.case["cddl"].as_str().unwrap_or("");
  let inst = v.case.get("instance").map(|i| i.to_string()).unwrap_or_default();
  let k = statelist::key(&[text, &inst]);
  match v.kind.as_str() {
    "valid-instance-not-deserialised" if v.observed.contains("floating point") && v.observed.contains("expected i64") && text.contains("time") => {
      statelist::listed(F_TIME, k).then(|| F_TIME.to_string())
    }
    "valid-instance-not-deserialised" if v.observed.contains("expected i64") || (v.observed.contains("did not match any variant") && inst.contains("18446744073709551615")) => {
      statelist::listed(F_INT64, k).then(|| F_INT64.to_string())
    }
    "valid-instance-not-deserialised" if v.observed.contains("did not match any variant of untagged enum MyRule") => statelist::listed(F_PASCAL, k).then(|| F_PASCAL.to_string()),
    "duplicate-type-name" if text.contains("$$") => statelist::listed(F_GSOCKET, k).then(|| F_GSOCKET.to_string()),
    _ => None,
  }
}

pub fn run(tier: Tier) -> i32 {
  quiet_panics();
  let _g = silence_stderr();
  let mut run = Run::new("C17", tier, "model_checking");
  std::fs::create_dir_all(WORK).expect("work dir");
  let ss = schemas(tier);
  let vals = values();

  // 1. generation: deterministic (twice in this process, once more in a fresh process), unique names
  let mut mods: Vec<(usize, String)> = vec![];
  let mut codes: Vec<Option<String>> = vec![];
  for (k, s) in ss.iter().enumerate() {
    let a = generate(&s.text);
    let b = generate(&s.text);
    if a != b {
      run.viol(Viol { kind: "generation-not-deterministic".into(), case: json!({"cddl": s.text}), observed: "two generations in one process differ".into(), expected: "byte-identical code".into(), finding: None });
    }
    match a {
      Ok(code) => {
        let (types, structs) = declared_names(&code);
        let dt = duplicates(&types);
        if !dt.is_empty() {
          run.viol(Viol { kind: "duplicate-type-name".into(), case: json!({"cddl": s.text}), observed: format!("type name(s) {dt:?} declared twice"), expected: "unique type names".into(), finding: None });
        }
        for (n, fs) in &structs {
          let df = duplicates(fs);
          if !df.is_empty() {
            run.viol(Viol { kind: "duplicate-field-name".into(), case: json!({"cddl": s.text}), observed: format!("struct {n}: field name(s) {df:?} declared twice"), expected: "unique field names per type".into(), finding: None });
          }
        }
        mods.push((k, module_text(&code)));
        codes.push(Some(code));
      }
      Err(e) => {
        run.viol(Viol { kind: "generation-fails".into(), case: json!({"cddl": s.text}), observed: e, expected: "code is generated for every schema of the documented mapping subset".into(), finding: None });
        codes.push(None);
      }
    }
  }
  // the broad family: every syntactic document the parser accepts: same code (or the same error) every time
  let broad = broad_family(tier);
  let mut broad_n = 0u64;
  let h_here: Vec<u64> = broad
    .iter()
    .map(|d| {
      let a = catch(|| generate(d));
      let b = catch(|| generate(d));
      broad_n += 1;
      if a != b {
        run.viol(Viol { kind: "generation-not-deterministic".into(), case: json!({"cddl": d}), observed: "two generations in one process differ".into(), expected: "byte-identical code".into(), finding: None });
      }
      if let Ok(Ok(code)) = &a {
        let (types, structs) = declared_names(code);
        let dt = duplicates(&types);
        if !dt.is_empty() {
          let mut v = Viol { kind: "duplicate-type-name".into(), case: json!({"cddl": d}), observed: format!("type name(s) {dt:?} declared twice"), expected: "unique type names".into(), finding: None };
          v.finding = classify(&v);
          run.viol(v);
        }
        for (n, fs) in &structs {
          let df = duplicates(fs);
          if !df.is_empty() {
            run.viol(Viol { kind: "duplicate-field-name".into(), case: json!({"cddl": d}), observed: format!("struct {n}: field name(s) {df:?} declared twice"), expected: "unique field names per type".into(), finding: None });
          }
        }
      }
      statelist::key(&[&format!("{a:?}")])
    })
    .collect();
  let h_mapping: Vec<u64> = codes.iter().map(|c| statelist::key(&[&format!("{c:?}")])).collect();
  // fresh process
  let exe = std::env::current_exe().expect("exe");
  match Command::new(exe).args(["c17-hashes", tier.name()]).output() {
    Ok(o) if o.status.success() => {
      let got: Vec<u64> = String::from_utf8_lossy(&o.stdout).lines().filter_map(|l| l.parse().ok()).collect();
      let want: Vec<u64> = h_mapping.iter().chain(h_here.iter()).copied().collect();
      if got.len() != want.len() {
        println!("ENGINE-ERROR C17: hash list of the second process has {} entries, expected {}", got.len(), want.len());
        return 2;
      }
      for (i, (g, w)) in got.iter().zip(want.iter()).enumerate() {
        if g != w {
          let text = if i < ss.len() { ss[i].text.clone() } else { broad[i - ss.len()].clone() };
          run.viol(Viol { kind: "generation-differs-between-processes".into(), case: json!({"cddl": text}), observed: "a fresh process generated different code".into(), expected: "byte-identical code in every process".into(), finding: None });
        }
      }
    }
    other => {
      println!("ENGINE-ERROR C17: second process failed: {:?}", other.map(|o| o.status));
      return 2;
    }
  }

  // 2. the generated code compiles
  let mut not_compiled: BTreeSet<usize> = BTreeSet::new();
  for _round in 0..6 {
    write_crate(&mods, tier.name());
    match build_crate(tier.name()) {
      Ok(blamed) if blamed.is_empty() => break,
      Ok(blamed) => {
        for (k, line) in blamed {
          run.viol(Viol { kind: "generated-code-does-not-compile".into(), case: json!({"cddl": ss[k].text}), observed: trunc(&line), expected: "the generated code compiles".into(), finding: None });
          not_compiled.insert(k);
          if let Some(m) = mods.iter_mut().find(|m| m.0 == k) {
            m.1 = STUB.to_string();
          }
        }
      }
      Err(e) => {
        println!("ENGINE-ERROR C17: scratch crate does not build for a reason outside the generated modules: {e}");
        return 2;
      }
    }
  }

  // 3. every valid instance round-trips
  let mut inst: BTreeMap<String, Vec<J>> = BTreeMap::new();
  let mut n_inst = 0u64;
  let mut n_cand = 0u64;
  for (k, s) in ss.iter().enumerate() {
    if codes[k].is_none() || not_compiled.contains(&k) {
      continue;
    }
    let cands = instances(s, &vals);
    n_cand += cands.len() as u64;
    let ok: Vec<J> = cands.into_iter().filter(|v| valid(&s.text, v)).collect();
    n_inst += ok.len() as u64;
    inst.insert(k.to_string(), ok);
  }
  let ipath = format!("{WORK}/instances-{}.json", tier.name());
  std::fs::write(&ipath, serde_json::to_string(&inst).unwrap()).expect("write instances");
  let out = match Command::new(format!("{WORK}/target/debug/c17run-{}", tier.name())).arg(&ipath).output() {
    Ok(o) if o.status.success() => String::from_utf8_lossy(&o.stdout).to_string(),
    other => {
      println!("ENGINE-ERROR C17: round-trip program failed: {:?}", other.map(|o| o.status));
      return 2;
    }
  };
  let mut seen = 0u64;
  let mut per_schema_reported: BTreeMap<usize, u32> = BTreeMap::new();
  let mut kinds: BTreeMap<String, u64> = BTreeMap::new();
  for l in out.lines() {
    let mut p = l.splitn(4, ' ');
    let (Some(k), Some(i), Some(tag), rest) = (p.next(), p.next(), p.next(), p.next().unwrap_or("")) else { continue };
    let (Ok(k), Ok(i)) = (k.parse::<usize>(), i.parse::<usize>()) else { continue };
    let v = &inst[&k.to_string()][i];
    seen += 1;
    let mut report = |kind: &str, observed: String, expected: &str, run: &mut Run| {
      *kinds.entry(kind.to_string()).or_insert(0) += 1;
      let n = per_schema_reported.entry(k).or_insert(0);
      *n += 1;
      let mut viol = Viol { kind: kind.into(), case: json!({"cddl": ss[k].text, "instance": v}), observed, expected: expected.into(), finding: None };
      viol.finding = classify(&viol);
      let _ = n;
      run.viol(viol);
    };
    match tag {
      "err" => {
        let what = if rest.starts_with('D') { "valid-instance-not-deserialised" } else { "value-not-serialised" };
        report(what, trunc(rest), "every instance that validates deserialises into the generated type and serialises back", &mut run);
      }
      "ok" => {
        let back: J = serde_json::from_str(rest).unwrap_or(J::Null);
        if !same_data(v, &back) {
          report("round-trip-changes-data", format!("serialised back as {back}"), "a JSON value that denotes the same data", &mut run);
        } else if !valid(&ss[k].text, &back) {
          report("round-trip-result-invalid", format!("serialised back as {back}, which the schema rejects"), "the re-serialised value still validates", &mut run);
        }
      }
      _ => {}
    }
  }
  if seen != n_inst {
    println!("ENGINE-ERROR C17: round-trip program reported {seen} instances, expected {n_inst}");
    return 2;
  }
  for k in [0usize, ss.len() / 2, ss.len() - 1] {
    if let Some(list) = inst.get(&k.to_string()) {
      run.sample(json!({"cddl": ss[k].text, "valid_instances": list.len(), "example_instance": list.first(), "generated_code_lines": codes[k].as_ref().map(|c| c.lines().count())}));
    }
  }
  run.states = n_inst + broad_n;
  run.transitions = n_inst * 2 + broad_n * 3;
  run.traces = n_inst;
  run.evaluations = n_inst + broad_n + ss.len() as u64;
  run.nontrivial = n_inst;
  run.set("schemas_mapping_subset", json!(ss.len()));
  run.set("schemas_by_family", json!(ss.iter().fold(BTreeMap::new(), |mut m: BTreeMap<&str, u64>, s| { *m.entry(s.family).or_insert(0) += 1; m })));
  run.set("schemas_compiled", json!(ss.len() - not_compiled.len() - codes.iter().filter(|c| c.is_none()).count()));
  run.set("candidate_instances", json!(n_cand));
  run.set("valid_instances_round_tripped", json!(n_inst));
  run.set("determinism_documents", json!(broad_n + ss.len() as u64));
  run.set("violations_by_kind", json!(kinds));
  run.rule = format!(
    "Mapping subset: {} schemas = every one-field map over 6 key forms (plain, hyphenated, camelCase, the keywords type / match / self) x required / optional x 26 field types of the README \
     table (prelude types, any, arrays, tables, nullable, nested rule, alias, string-literal choice, type choice, array / table of nested rules), two-field maps over keys whose Rust names \
     collide after snake-casing / keyword escaping (my-field, my_field, myField, type, type_) x occurrences x types, and 20 top-level shapes (non-map roots, recursion, mutual recursion, \
     colliding and keyword rule names, nesting, quoted keys). For each: the crate's own generate_all_types (compiled from /repo's working tree) must succeed, give the same text twice in one \
     process and in a fresh process, declare every type name and every field name of a struct once; all generated modules are compiled together in a scratch crate (rustc errors are \
     attributed to their module); every instance of the candidate space (each root key absent or holding one of {} universe values; non-map roots: the universe) that the real JSON validator \
     accepts is deserialised into the generated Root type and serialised back by the compiled code; the result must denote the same data (numbers by value; a null-valued optional member and \
     an absent one are not told apart) and still validate. Determinism additionally over {} syntactic documents (type terms of weight <= 2, headers, multi-rule, nested, operators).",
    ss.len(),
    vals.len(),
    broad_n
  );
  run.finish()
}

fn broad_family(tier: Tier) -> Vec<String> {
  use crate::syn::*;
  let cfg = syntax_cfg(Tier::Quick);
  let en = crate::terms::Enum::new(&cfg, tier.pick(2, 3));
  let mut d = docs_types(&en, tier.pick(2, 3));
  d.extend(docs_headers(&en, 2));
  d.extend(docs_multi(Tier::Quick));
  d.extend(crate::c16::docs_nested());
  d.extend(docs_operators());
  d.retain(|t| catch(|| cddl::cddl_from_str(t, false).is_ok()).unwrap_or(false));
  d
}

/// `mc c17-setup`: compile the dependencies of the scratch crate (setup_cmd; no verdict)
pub fn setup() -> i32 {
  std::fs::create_dir_all(WORK).expect("work dir");
  if std::path::Path::new(&format!("{WORK}/run-quick/src/g/mod.rs")).exists() {
    return 0;
  }
  write_crate(&[], "quick");
  match build_crate("quick") {
    Ok(_) => 0,
    Err(e) => {
      println!("ENGINE-ERROR C17 setup: {e}");
      2
    }
  }
}

/// `mc c17-hashes <tier>`: the hash of the generated code of every schema, one per line (run as a second process)
pub fn hashes(tier: Tier) {
  quiet_panics();
  let _g = silence_stderr();
  for s in schemas(tier) {
    let c = generate(&s.text).ok();
    println!("{}", statelist::key(&[&format!("{c:?}")]));
  }
  for d in broad_family(tier) {
    let a = catch(|| generate(&d));
    println!("{}", statelist::key(&[&format!("{a:?}")]));
  }
}

pub fn replay(case: &J) -> Option<Viol> {
  // generation-level facts are replayed in-process; round-trip cases through a one-module scratch crate
  let text = case["cddl"].as_str()?;
  let a = generate(text);
  let b = generate(text);
  if a != b {
    return Some(Viol { kind: "generation-not-deterministic".into(), case: case.clone(), observed: "differs".into(), expected: "identical".into(), finding: None });
  }
  let code = match a {
    Ok(c) => c,
    Err(e) => return Some(Viol { kind: "generation-fails".into(), case: case.clone(), observed: e, expected: "code".into(), finding: None }),
  };
  let (types, structs) = declared_names(&code);
  if !duplicates(&types).is_empty() || structs.iter().any(|(_, f)| !duplicates(f).is_empty()) {
    return Some(Viol { kind: "duplicate-name".into(), case: case.clone(), observed: format!("{:?} {:?}", duplicates(&types), structs), expected: "unique names".into(), finding: None });
  }
  let Some(inst) = case.get("instance") else {
    // compile-only replay
    std::fs::create_dir_all(WORK).ok()?;
    write_crate(&[(0, module_text(&code))], "replay");
    return match build_crate("replay") {
      Ok(b) if b.is_empty() => None,
      Ok(b) => Some(Viol { kind: "generated-code-does-not-compile".into(), case: case.clone(), observed: format!("{b:?}"), expected: "compiles".into(), finding: None }),
      Err(e) => Some(Viol { kind: "engine".into(), case: case.clone(), observed: e, expected: "".into(), finding: None }),
    };
  };
  std::fs::create_dir_all(WORK).ok()?;
  write_crate(&[(0, module_text(&code))], "replay");
  match build_crate("replay") {
    Ok(b) if b.is_empty() => {}
    Ok(b) => return Some(Viol { kind: "generated-code-does-not-compile".into(), case: case.clone(), observed: format!("{b:?}"), expected: "compiles".into(), finding: None }),
    Err(_) => return None,
  }
  let ipath = format!("{WORK}/instances-replay.json");
  std::fs::write(&ipath, json!({"0": [inst]}).to_string()).ok()?;
  let o = Command::new(format!("{WORK}/target/debug/c17run-replay")).arg(&ipath).output().ok()?;
  let out = String::from_utf8_lossy(&o.stdout).to_string();
  let l = out.lines().next()?;
  let mut p = l.splitn(4, ' ');
  let (_, _, tag, rest) = (p.next(), p.next(), p.next()?, p.next().unwrap_or(""));
  if !valid(text, inst) {
    return None;
  }
  if tag == "err" {
    return Some(Viol { kind: "valid-instance-not-deserialised".into(), case: case.clone(), observed: rest.into(), expected: "round trip".into(), finding: None });
  }
  let back: J = serde_json::from_str(rest).unwrap_or(J::Null);
  if !same_data(inst, &back) || !valid(text, &back) {
    return Some(Viol { kind: "round-trip".into(), case: case.clone(), observed: back.to_string(), expected: inst.to_string(), finding: None });
  }
  None
}
