//! Running the real validators on (schema, document) states.
use crate::cborref::{rv_to_impl, RV};
use crate::core::catch;
use cddl::validator::{cbor::CBORValidator, json::JSONValidator, Validator};

#[derive(Clone, Debug, PartialEq, Eq, PartialOrd, Ord)]
pub enum Obs {
  Ok,
  Invalid,
  /// any other error kind (schema parse error, disabled feature, ...)
  Other(String),
  Panic(String),
}
impl Obs {
  pub fn short(&self) -> String {
    match self {
      Obs::Ok => "Ok".into(),
      Obs::Invalid => "Err(Validation)".into(),
      Obs::Other(s) => format!("Err(other: {})", crate::core::trunc(s)),
      Obs::Panic(s) => format!("PANIC({})", crate::core::trunc(s)),
    }
  }
  pub fn accepted(&self) -> Option<bool> {
    match self {
      Obs::Ok => Some(true),
      Obs::Invalid => Some(false),
      _ => None,
    }
  }
}

pub fn rv_to_serde(v: &RV) -> serde_json::Value {
  serde_json::from_str(&crate::docs::to_json_text(v)).unwrap()
}

/// JSON validation through the string entry point named in the property
pub fn json_str(schema: &str, json: &str) -> Obs {
  match catch(|| cddl::validate_json_from_str(schema, json, None)) {
    Ok(Ok(())) => Obs::Ok,
    Ok(Err(cddl::validator::json::Error::Validation(_))) => Obs::Invalid,
    Ok(Err(e)) => Obs::Other(format!("{e}")),
    Err(p) => Obs::Panic(p),
  }
}
pub fn cbor_slice(schema: &str, bytes: &[u8]) -> Obs {
  match catch(|| cddl::validate_cbor_from_slice(schema, bytes, None)) {
    Ok(Ok(())) => Obs::Ok,
    Ok(Err(cddl::validator::cbor::Error::Validation(_))) => Obs::Invalid,
    Ok(Err(e)) => Obs::Other(format!("{e}")),
    Err(p) => Obs::Panic(p),
  }
}

/// Parse once, validate many JSON values (bulk route; the string route is
/// cross-checked against it by the callers).
pub fn json_many(schema: &str, docs: &[serde_json::Value]) -> Result<Vec<Obs>, String> {
  let ast = match catch(|| cddl::cddl_from_str(schema, false)) {
    Ok(Ok(a)) => a,
    Ok(Err(e)) => return Err(e),
    Err(p) => return Err(format!("PANIC in parser: {p}")),
  };
  Ok(
    docs
      .iter()
      .map(|d| {
        match catch(|| {
          let mut jv = JSONValidator::new(&ast, d.clone(), None);
          jv.validate()
        }) {
          Ok(Ok(())) => Obs::Ok,
          Ok(Err(cddl::validator::json::Error::Validation(_))) => Obs::Invalid,
          Ok(Err(e)) => Obs::Other(format!("{e}")),
          Err(p) => Obs::Panic(p),
        }
      })
      .collect(),
  )
}

pub fn cbor_many(schema: &str, docs: &[RV]) -> Result<Vec<Obs>, String> {
  let ast = match catch(|| cddl::cddl_from_str(schema, false)) {
    Ok(Ok(a)) => a,
    Ok(Err(e)) => return Err(e),
    Err(p) => return Err(format!("PANIC in parser: {p}")),
  };
  Ok(
    docs
      .iter()
      .map(|d| {
        match catch(|| {
          let mut cv = CBORValidator::new(&ast, rv_to_impl(d), None);
          let r: Result<(), cddl::validator::cbor::Error<std::io::Error>> = cv.validate();
          r
        }) {
          Ok(Ok(())) => Obs::Ok,
          Ok(Err(cddl::validator::cbor::Error::Validation(_))) => Obs::Invalid,
          Ok(Err(e)) => Obs::Other(format!("{e}")),
          Err(p) => Obs::Panic(p),
        }
      })
      .collect(),
  )
}


/// The items as the crate's own decoder delivers them: preferred encoding -> decode_cbor.
/// (Validating these instead of directly constructed values keeps the real decoder inside
/// the checked path; an item the decoder rejects is passed through rv_to_impl.)
pub fn decoded_items(docs: &[RV]) -> Vec<cddl::validator::cbor_value::Value> {
  docs
    .iter()
    .map(|d| {
      let b = crate::cborref::preferred(d);
      match catch(|| cddl::validator::cbor_value::decode_cbor(&b)) {
        Ok(Ok(v)) => v,
        _ => rv_to_impl(d),
      }
    })
    .collect()
}

pub fn cbor_many_values(schema: &str, docs: &[cddl::validator::cbor_value::Value]) -> Result<Vec<Obs>, String> {
  let ast = match catch(|| cddl::cddl_from_str(schema, false)) {
    Ok(Ok(a)) => a,
    Ok(Err(e)) => return Err(e),
    Err(p) => return Err(format!("PANIC in parser: {p}")),
  };
  Ok(
    docs
      .iter()
      .map(|d| {
        match catch(|| {
          let mut cv = CBORValidator::new(&ast, d.clone(), None);
          let r: Result<(), cddl::validator::cbor::Error<std::io::Error>> = cv.validate();
          r
        }) {
          Ok(Ok(())) => Obs::Ok,
          Ok(Err(cddl::validator::cbor::Error::Validation(_))) => Obs::Invalid,
          Ok(Err(e)) => Obs::Other(format!("{e}")),
          Err(p) => Obs::Panic(p),
        }
      })
      .collect(),
  )
}
