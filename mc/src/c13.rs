//! C13 — CSV validation = JSON validation of the draft's data-model mapping.
//! Reference: an own RFC 4180 reader and the field classes of the property statement
//! (number / text / don't-care); the mapped JSON document is validated with the real JSON
//! validator and the verdict compared with the real CSV entry point, for a schema set chosen
//! to distinguish field kinds, values, record widths and record counts.
use crate::core::*;
use serde_json::{json, Value as J};
use std::collections::BTreeMap;

#[derive(Debug, Clone, PartialEq)]
pub enum Field {
  Num(J),
  Text(String),
  DontCare,
}

/// -?(0|[1-9][0-9]*)(\.[0-9]+)?([eE][+-]?[0-9]+)?   returns (is_integer_spelling)
fn strict_number(s: &str) -> Option<bool> {
  let b = s.as_bytes();
  let mut i = 0;
  if i < b.len() && b[i] == b'-' {
    i += 1;
  }
  let ds = i;
  while i < b.len() && b[i].is_ascii_digit() {
    i += 1;
  }
  if i == ds || (b[ds] == b'0' && i - ds > 1) {
    return None;
  }
  let mut integer = true;
  if i < b.len() && b[i] == b'.' {
    integer = false;
    i += 1;
    let fs = i;
    while i < b.len() && b[i].is_ascii_digit() {
      i += 1;
    }
    if i == fs {
      return None;
    }
  }
  if i < b.len() && (b[i] == b'e' || b[i] == b'E') {
    integer = false;
    i += 1;
    if i < b.len() && (b[i] == b'+' || b[i] == b'-') {
      i += 1;
    }
    let es = i;
    while i < b.len() && b[i].is_ascii_digit() {
      i += 1;
    }
    if i == es {
      return None;
    }
  }
  (i == b.len()).then_some(integer)
}

pub fn classify(field: &str) -> Field {
  match strict_number(field) {
    Some(true) => {
      // decimal integer: the JSON number of that value (integer when it fits, else a float)
      if let Ok(u) = field.parse::<u64>() {
        return Field::Num(json!(u));
      }
      if let Ok(i) = field.parse::<i64>() {
        return Field::Num(json!(i));
      }
      match field.parse::<f64>() {
        Ok(f) if f.is_finite() => Field::Num(json!(f)),
        _ => Field::DontCare,
      }
    }
    Some(false) => match field.parse::<f64>() {
      Ok(f) if f.is_finite() => Field::Num(json!(f)),
      // a float spelling whose value is not finite (1e999) stays text
      Ok(_) => Field::Text(field.to_string()),
      Err(_) => Field::DontCare,
    },
    None => {
      // spellings the property does not pin: anything else a lenient number reader takes as a
      // finite number (leading '+', leading zeros, "1.", ".5", ...)
      match field.parse::<f64>() {
        Ok(f) if f.is_finite() => Field::DontCare,
        _ => Field::Text(field.to_string()),
      }
    }
  }
}

/// RFC 4180 records; None = the text is not covered by RFC 4180 as the property reads it
/// (stray quote, text after a closing quote, bare CR, blank line)
pub fn rfc4180(text: &str) -> Option<Vec<Vec<String>>> {
  let b: Vec<char> = text.chars().collect();
  let mut recs: Vec<Vec<String>> = vec![];
  let mut rec: Vec<String> = vec![];
  let mut i = 0;
  RECQ.with(|r| r.borrow_mut().clear());
  QUOTED.with(|q| q.set(false));
  if b.is_empty() {
    return Some(recs);
  }
  loop {
    // one field
    let mut f = String::new();
    if i < b.len() && b[i] == '"' {
      i += 1;
      loop {
        if i >= b.len() {
          return None; // unterminated quote
        }
        if b[i] == '"' {
          if i + 1 < b.len() && b[i + 1] == '"' {
            f.push('"');
            i += 2;
          } else {
            i += 1;
            break;
          }
        } else {
          f.push(b[i]);
          i += 1;
        }
      }
      if i < b.len() && !(b[i] == ',' || b[i] == '\n' || (b[i] == '\r' && i + 1 < b.len() && b[i + 1] == '\n')) {
        return None; // text after the closing quote
      }
      rec.push(f);
      QUOTED.with(|q| q.set(true));
    } else {
      while i < b.len() && b[i] != ',' && b[i] != '\n' && b[i] != '\r' {
        if b[i] == '"' {
          return None; // quote inside an unquoted field
        }
        f.push(b[i]);
        i += 1;
      }
      if i < b.len() && b[i] == '\r' && !(i + 1 < b.len() && b[i + 1] == '\n') {
        return None; // bare CR
      }
      rec.push(f);
    }
    if i >= b.len() {
      recs.push(rec);
      RECQ.with(|r| r.borrow_mut().push(QUOTED.with(|q| q.replace(false))));
      return finish(recs, text);
    }
    if b[i] == ',' {
      i += 1;
      if i >= b.len() {
        // trailing comma: one more (empty) field
        rec.push(String::new());
        recs.push(rec);
        RECQ.with(|r| r.borrow_mut().push(QUOTED.with(|q| q.replace(false))));
        return finish(recs, text);
      }
      continue;
    }
    // line break
    i += if b[i] == '\r' { 2 } else { 1 };
    recs.push(std::mem::take(&mut rec));
    RECQ.with(|r| r.borrow_mut().push(QUOTED.with(|q| q.replace(false))));
    if i >= b.len() {
      return finish(recs, text);
    }
  }
}
thread_local! {
  static QUOTED: std::cell::Cell<bool> = std::cell::Cell::new(false);
  static RECQ: std::cell::RefCell<Vec<bool>> = std::cell::RefCell::new(vec![]);
}
fn finish(recs: Vec<Vec<String>>, text: &str) -> Option<Vec<Vec<String>>> {
  // a blank line (a record consisting of one empty unquoted field) is not defined by RFC 4180
  let mut lines = text.split('\n').map(|l| l.trim_end_matches('\r')).collect::<Vec<_>>();
  if text.ends_with('\n') {
    lines.pop();
  }
  // a blank physical line outside quotes (a record of one empty UNQUOTED field) is left out: readers disagree on
  // it. A record whose only field is a QUOTED empty field (`""` on a line of its own) is an ordinary record.
  let quoted = RECQ.with(|r| std::mem::take(&mut *r.borrow_mut()));
  if recs.iter().enumerate().any(|(k, r)| r.len() == 1 && r[0].is_empty() && !quoted.get(k).copied().unwrap_or(false)) {
    return None;
  }
  Some(recs)
}

pub fn mapped(text: &str, header: bool) -> Option<J> {
  let recs = rfc4180(text)?;
  let mut rows = vec![];
  for (ri, r) in recs.iter().enumerate() {
    let mut row = vec![];
    for f in r {
      if header && ri == 0 {
        row.push(J::String(f.clone()));
      } else {
        match classify(f) {
          Field::Num(n) => row.push(n),
          Field::Text(t) => row.push(J::String(t)),
          Field::DontCare => return None,
        }
      }
    }
    rows.push(J::Array(row));
  }
  Some(J::Array(rows))
}

pub const SCHEMAS: [&str; 16] = [
  "r = [* [* tstr]]",
  "r = [* [* number]]",
  "r = [* [* int]]",
  "r = [* [* uint]]",
  "r = [* [* float]]",
  "r = [* [tstr, uint]]",
  "r = [[+ tstr], * [int, float]]",
  "r = [* [* (tstr / number)]]",
  "r = []",
  "r = [* [any]]",
  "r = [* [any, any]]",
  "r = [* [* \"\"]]",
  "r = [* [* (0 / 1 / 10 / -1 / 100)]]",
  "r = [* [* (tstr .size 1)]]",
  "r = [[* tstr], [* number]]",
  "r = [+ [+ (1.0 / 1.5 / 100000.0 / \"a\")]]",
];

fn verdict_csv(schema: &str, csv: &str, header: bool) -> Result<bool, String> {
  match catch(|| cddl::validate_csv_from_str(schema, csv, Some(header), None)) {
    Ok(Ok(())) => Ok(true),
    Ok(Err(cddl::validator::csv_validator::Error::JSONValidation(_))) | Ok(Err(cddl::validator::csv_validator::Error::Validation(_))) => Ok(false),
    Ok(Err(e)) => Err(format!("{e}")),
    Err(p) => Err(format!("PANIC {p}")),
  }
}

pub fn check(csv: &str, header: bool, asts: &[cddl::ast::CDDL]) -> (Vec<Viol>, &'static str) {
  let Some(m) = mapped(csv, header) else {
    return (vec![], "dont_care");
  };
  let mut out = vec![];
  for (si, schema) in SCHEMAS.iter().enumerate() {
    let exp = match catch(|| {
      use cddl::validator::Validator;
      let mut jv = cddl::validator::json::JSONValidator::new(&asts[si], m.clone(), None);
      jv.validate().is_ok()
    }) {
      Ok(b) => b,
      Err(_) => continue,
    };
    let got = verdict_csv(schema, csv, header);
    if got != Ok(exp) {
      out.push(Viol {
        kind: "csv-verdict".into(),
        case: json!({"schema": schema, "csv": csv, "header": header, "mapped_json": m.to_string()}),
        observed: format!("validate_csv_from_str: {:?}", got),
        expected: format!("as JSON validation of the mapped document: {}", if exp { "Ok" } else { "Err(Validation)" }),
        finding: None,
      });
      break;
    }
  }
  (out, "judged")
}

#[derive(Default)]
struct Acc {
  v: VAcc,
  n: u64,
  judged: u64,
  dc: u64,
  accept_some: u64,
  samples: Vec<J>,
  obs: BTreeMap<String, u64>,
}

fn strings_over(alpha: &[&str], max: usize) -> Vec<String> {
  let mut out = vec![String::new()];
  let mut cur = vec![String::new()];
  for _ in 0..max {
    let mut next = vec![];
    for s in &cur {
      for a in alpha {
        next.push(format!("{s}{a}"));
      }
    }
    out.extend(next.iter().cloned());
    cur = next;
  }
  out
}

fn structured() -> Vec<String> {
  let fields = [
    "a", "007", "1e5", "+3", "0x10", "NaN", "inf", "-inf", "infinity", "-0", "0", "1.", ".5", "1_0", "1.5", "-1", "1e999", "1E2", "1e-2", "18446744073709551615",
    "18446744073709551616", "-9223372036854775808", "-9223372036854775809", "9223372036854775808", "\"1\"", "\"a,b\"", "\"a\"\"b\"", "\"a\nb\"", "\"\"", "", " 1", "1 ", "a b",
    "100000.0", "1.0", "é",
  ];
  let mut out = vec![];
  for nl in ["\n", "\r\n"] {
    for a in fields {
      out.push(format!("{a}"));
      out.push(format!("{a}{nl}"));
      for b in fields {
        out.push(format!("{a},{b}{nl}"));
        out.push(format!("{a}{nl}{b}{nl}"));
        out.push(format!("h1,h2{nl}{a},{b}"));
        out.push(format!("x,{a}{nl}y,{b}{nl}z"));
      }
    }
  }
  out
}

pub fn run(tier: Tier) -> i32 {
  quiet_panics();
  let _g = silence_stderr();
  let mut run = Run::new("C13", tier, "model_checking");
  let l = tier.pick(4, 5);
  let mut texts = strings_over(&["a", "1", "0", "-", "+", ".", "e", ",", "\"", " ", "\n", "\r\n"], l);
  let exhaustive_n = texts.len();
  texts.extend(structured());
  let asts: Vec<cddl::ast::CDDL> = SCHEMAS.iter().map(|s| cddl::cddl_from_str(s, false).expect("schema")).collect();
  let accs = par_sweep(texts.len() * 2, 64, Acc::default, |x, a: &mut Acc| {
    let (t, header) = (&texts[x / 2], x % 2 == 1);
    let (vs, class) = check(t, header, &asts);
    a.n += 1;
    if class == "judged" {
      a.judged += 1;
    } else {
      a.dc += 1;
    }
    for v in vs {
      a.v.push(v);
    }
    if a.samples.is_empty() && class == "judged" && x % 3001 == 7 {
      a.samples.push(json!({"csv": t, "header": header, "mapped_json": mapped(t, header).map(|m| m.to_string())}));
    }
    let _ = (&a.obs, a.accept_some);
  });
  let (mut n, mut j, mut d) = (0, 0, 0);
  for a in accs {
    run.absorb(a.v);
    n += a.n;
    j += a.judged;
    d += a.dc;
    for s in a.samples {
      run.sample(s);
    }
  }
  run.states = n;
  run.transitions = j * SCHEMAS.len() as u64;
  run.traces = j * SCHEMAS.len() as u64;
  run.evaluations = n;
  run.nontrivial = j;
  run.set("texts_exhaustive_part", json!(exhaustive_n));
  run.set("texts_structured_part", json!(texts.len() - exhaustive_n));
  run.set("judged", json!(j));
  run.set("dont_care", json!(d));
  run.set("schemas", json!(SCHEMAS));
  run.rule = format!(
    "state = (CSV text, header flag). Texts: every string of <= {l} symbols over {{a 1 0 - + . e , \" space LF CRLF}} plus a structured family (36 field spellings incl. \
     007 1e5 +3 0x10 NaN inf -0 1. .5 1_0 1e999 2^64-1 2^64 -2^63 -2^63-1, quoted fields with commas / doubled quotes / line breaks, empty fields) in 1-3 columns x 1-3 rows x LF/CRLF. \
     Reference: own RFC 4180 reader + the property's field classes -> mapped JSON value (don't-care: stray quotes, bare CR, blank lines, and spellings the property does not pin: \
     leading '+', leading zeros, '1.', '.5'). transition = validation of the state against one of 16 schemas chosen to distinguish text/number/int/uint/float, literal values, \
     record width and record count. Oracle: validate_csv_from_str(schema, csv, header) accepts iff the real JSON validator accepts the mapped document. non-trivial = judged states."
  );
  run.finish()
}

pub fn replay(case: &J) -> Option<Viol> {
  let asts: Vec<cddl::ast::CDDL> = SCHEMAS.iter().map(|s| cddl::cddl_from_str(s, false).expect("schema")).collect();
  let _g = silence_stderr();
  check(case["csv"].as_str()?, case["header"].as_bool()?, &asts).0.into_iter().next()
}
