//! Document universes (JSON-model and CBOR data-model values) as reference values.
use crate::cborref::RV;
use crate::core::Tier;

pub fn t(s: &str) -> RV {
  RV::Text(s.to_string())
}
pub fn i(n: i64) -> RV {
  if n >= 0 {
    RV::Uint(n as u64)
  } else {
    RV::Nint((-1 - n) as u64)
  }
}
pub const NULL: RV = RV::Simple(22);
pub const TRUE: RV = RV::Simple(21);
pub const FALSE: RV = RV::Simple(20);

/// Is the value inside the JSON data model (null, bool, int, float, text, arrays,
/// text-keyed maps without duplicate keys)?
pub fn is_json(v: &RV) -> bool {
  match v {
    RV::Uint(_) | RV::Nint(_) | RV::Text(_) => true,
    RV::Float(f) => f.is_finite(),
    RV::Simple(20..=22) => true,
    RV::Array(a) => a.iter().all(is_json),
    RV::Map(m) => {
      let mut keys = std::collections::BTreeSet::new();
      m.iter().all(|(k, v)| matches!(k, RV::Text(s) if keys.insert(s.clone())) && is_json(v))
    }
    _ => false,
  }
}

pub fn to_json_text(v: &RV) -> String {
  match v {
    RV::Uint(n) => n.to_string(),
    RV::Nint(n) => (-1i128 - *n as i128).to_string(),
    RV::Float(f) => {
      let s = format!("{:?}", f);
      s
    }
    RV::Text(s) => serde_json::to_string(s).unwrap(),
    RV::Simple(20) => "false".into(),
    RV::Simple(21) => "true".into(),
    RV::Simple(22) => "null".into(),
    RV::Array(a) => format!("[{}]", a.iter().map(to_json_text).collect::<Vec<_>>().join(",")),
    RV::Map(m) => format!(
      "{{{}}}",
      m.iter().map(|(k, v)| format!("{}:{}", to_json_text(k), to_json_text(v))).collect::<Vec<_>>().join(",")
    ),
    _ => panic!("not a JSON value"),
  }
}

/// number of integral-valued numeric leaves (the int/float ambiguity sites of C01)
pub fn numeric_sites(v: &RV) -> usize {
  match v {
    RV::Uint(_) | RV::Nint(_) => 1,
    RV::Float(f) => (f.fract() == 0.0 && f.abs() < 9e15) as usize,
    RV::Array(a) => a.iter().map(numeric_sites).sum(),
    RV::Map(m) => m.iter().map(|(k, v)| numeric_sites(k) + numeric_sites(v)).sum(),
    RV::Tag(_, x) => numeric_sites(x),
    _ => 0,
  }
}

/// Rewrite the integral numeric leaves according to `mask` (bit k set = read leaf k as float)
pub fn reading(v: &RV, mask: u32, idx: &mut u32) -> RV {
  match v {
    RV::Uint(_) | RV::Nint(_) => {
      let k = *idx;
      *idx += 1;
      if mask & (1 << k) != 0 {
        RV::Float(crate::refmodel::int_val(v).unwrap() as f64)
      } else {
        v.clone()
      }
    }
    RV::Float(f) if f.fract() == 0.0 && f.abs() < 9e15 => {
      let k = *idx;
      *idx += 1;
      if mask & (1 << k) != 0 {
        v.clone()
      } else {
        let n = *f as i128;
        if n >= 0 {
          RV::Uint(n as u64)
        } else {
          RV::Nint((-1 - n) as u64)
        }
      }
    }
    RV::Array(a) => RV::Array(a.iter().map(|x| reading(x, mask, idx)).collect()),
    RV::Map(m) => RV::Map(m.iter().map(|(k, x)| (k.clone(), reading(x, mask, idx))).collect()),
    _ => v.clone(),
  }
}

pub fn json_scalars() -> Vec<RV> {
  vec![NULL, TRUE, FALSE, i(0), i(1), i(2), i(3), i(-1), RV::Float(1.5), t(""), t("a"), t("b"), t("abc")]
}

/// JSON-model universe J(tier)
pub fn json_universe(tier: Tier) -> Vec<RV> {
  let sc = json_scalars();
  let mut out = sc.clone();
  // a few more scalars beyond the core
  out.extend([i(256), i(-2), RV::Float(-0.5), RV::Float(2.5), t("ab")]);
  let el: Vec<RV> = vec![i(0), i(1), i(2), i(-1), RV::Float(1.5), t("a"), t("b"), TRUE, NULL];
  // arrays up to length 3 over el
  out.push(RV::Array(vec![]));
  for a in &el {
    out.push(RV::Array(vec![a.clone()]));
    for b in &el {
      out.push(RV::Array(vec![a.clone(), b.clone()]));
    }
  }
  let el3: Vec<RV> = match tier {
    Tier::Quick => vec![i(1), i(2), t("a"), RV::Float(1.5)],
    Tier::Thorough => vec![i(0), i(1), i(2), t("a"), t("b"), RV::Float(1.5), TRUE],
  };
  for a in &el3 {
    for b in &el3 {
      for c in &el3 {
        out.push(RV::Array(vec![a.clone(), b.clone(), c.clone()]));
      }
    }
  }
  if tier == Tier::Thorough {
    let el4 = vec![i(1), t("a"), i(2)];
    for a in &el4 {
      for b in &el4 {
        for c in &el4 {
          for d in &el4 {
            out.push(RV::Array(vec![a.clone(), b.clone(), c.clone(), d.clone()]));
          }
        }
      }
    }
  }
  // objects over keys a,b,c with values from mv
  let mv: Vec<RV> = match tier {
    Tier::Quick => vec![i(1), i(2), t("x"), RV::Float(1.5), NULL],
    Tier::Thorough => vec![i(0), i(1), i(2), i(-1), t("a"), t("x"), RV::Float(1.5), NULL, TRUE],
  };
  let keys = ["a", "b", "c"];
  out.push(RV::Map(vec![]));
  for k in keys {
    for v in &mv {
      out.push(RV::Map(vec![(t(k), v.clone())]));
    }
  }
  for (ki, k1) in keys.iter().enumerate() {
    for k2 in keys.iter().skip(ki + 1) {
      for v1 in &mv {
        for v2 in &mv {
          out.push(RV::Map(vec![(t(k1), v1.clone()), (t(k2), v2.clone())]));
        }
      }
    }
  }
  let mv3: Vec<RV> = match tier {
    Tier::Quick => vec![i(1), t("x")],
    Tier::Thorough => vec![i(1), i(2), t("x"), NULL],
  };
  for v1 in &mv3 {
    for v2 in &mv3 {
      for v3 in &mv3 {
        out.push(RV::Map(vec![(t("a"), v1.clone()), (t("b"), v2.clone()), (t("c"), v3.clone())]));
      }
    }
  }
  // nesting depth 2
  let inner: Vec<RV> = vec![
    RV::Array(vec![]),
    RV::Array(vec![i(1)]),
    RV::Array(vec![t("a")]),
    RV::Array(vec![i(1), i(2)]),
    RV::Array(vec![i(1), t("a")]),
    RV::Map(vec![]),
    RV::Map(vec![(t("a"), i(1))]),
    RV::Map(vec![(t("a"), t("x"))]),
    RV::Map(vec![(t("b"), i(1))]),
    RV::Map(vec![(t("a"), i(1)), (t("b"), i(2))]),
  ];
  for x in &inner {
    out.push(RV::Array(vec![x.clone()]));
    out.push(RV::Array(vec![i(1), x.clone()]));
    out.push(RV::Array(vec![x.clone(), x.clone()]));
    out.push(RV::Map(vec![(t("a"), x.clone())]));
    out.push(RV::Map(vec![(t("a"), i(1)), (t("b"), x.clone())]));
    if tier == Tier::Thorough {
      out.push(RV::Array(vec![x.clone(), t("a")]));
      out.push(RV::Array(vec![RV::Array(vec![x.clone()])]));
      out.push(RV::Map(vec![(t("b"), x.clone())]));
      out.push(RV::Map(vec![(t("a"), RV::Map(vec![(t("a"), x.clone())]))]));
    }
  }
  out
}

/// CBOR-only additions on top of J
pub fn cbor_extra(tier: Tier) -> Vec<RV> {
  let mut out = vec![
    RV::Bytes(vec![]),
    RV::Bytes(vec![1]),
    RV::Bytes(b"a".to_vec()),
    RV::Bytes(vec![1, 2]),
    RV::Simple(23),
    RV::Simple(0),
    RV::Simple(19),
    RV::Simple(32),
    RV::Simple(255),
    RV::Float(0.0),
    RV::Float(1.0),
    RV::Float(f64::INFINITY),
    RV::Float(f64::NAN),
    RV::Float(1.1),
    RV::Float(100000.0),
    RV::Uint(23),
    RV::Uint(24),
    RV::Uint(255),
    RV::Uint(256),
    RV::Uint(65535),
    RV::Uint(65536),
    RV::Uint(u32::MAX as u64),
    RV::Uint(u32::MAX as u64 + 1),
    RV::Uint(i64::MAX as u64),
    RV::Uint(i64::MAX as u64 + 1),
    RV::Uint(u64::MAX),
    RV::Nint(23),
    RV::Nint(24),
    RV::Nint(i64::MAX as u64),
    RV::Nint(i64::MAX as u64 + 1),
    RV::Nint(u64::MAX),
  ];
  let small = vec![i(1), i(-1), t("a"), RV::Bytes(vec![1]), RV::Float(1.5), NULL, RV::Array(vec![i(1)])];
  for tag in [0u64, 1, 2, 99] {
    for x in &small {
      out.push(RV::Tag(tag, Box::new(x.clone())));
    }
  }
  out.push(RV::Tag(1, Box::new(RV::Tag(1, Box::new(i(1))))));
  // non-text keys, duplicate and equivalent keys
  let ks = vec![i(1), i(2), i(-1), t("a"), RV::Bytes(vec![1]), RV::Float(1.0)];
  let vs = vec![i(1), t("x")];
  for k in &ks {
    for v in &vs {
      out.push(RV::Map(vec![(k.clone(), v.clone())]));
    }
  }
  for k1 in &ks {
    for k2 in &ks {
      for v1 in &vs {
        for v2 in &vs {
          out.push(RV::Map(vec![(k1.clone(), v1.clone()), (k2.clone(), v2.clone())]));
        }
      }
    }
  }
  if tier == Tier::Thorough {
    let ks3 = vec![i(1), i(2), t("a"), t("b")];
    for k1 in &ks3 {
      for k2 in &ks3 {
        for k3 in &ks3 {
          for v in &vs {
            out.push(RV::Map(vec![(k1.clone(), i(1)), (k2.clone(), v.clone()), (k3.clone(), t("x"))]));
          }
        }
      }
    }
  }
  out.push(RV::Array(vec![RV::Bytes(vec![1]), i(1)]));
  out.push(RV::Array(vec![RV::Tag(1, Box::new(i(1)))]));
  out
}
