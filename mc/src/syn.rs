//! Syntax-facing document space (C06, C12, C15, C16, C20): a broad alphabet of every
//! construct kind the grammar has, enumerated exhaustively by weight, plus rule-header
//! and multi-rule families.  Documents are plain texts; the parser decides which are
//! accepted (the properties quantify over accepted documents).
use crate::core::Tier;
use crate::terms::*;

/// a verbatim atom (rendered as written)
pub fn raw(s: &str) -> T2 {
  T2::Name(s.to_string(), vec![])
}

pub fn syntax_cfg(tier: Tier) -> Cfg {
  let mut atoms: Vec<T2> = vec![
    name("int"),
    name("tstr"),
    name("b"),
    name("$s"),
    name("a-b.c"),
    int(0),
    int(1),
    int(-1),
    raw("1.5"),
    raw("1.0"),
    raw("-0.0"),
    raw("1e3"),
    raw("0x10"),
    raw("0b101"),
    raw("-0x1p4"),
    text("a"),
    text(""),
    T2::Lit(Lit::Text("x\"y".into())),
    T2::Lit(Lit::Text("x\\y".into())),
    T2::Lit(Lit::Text("é;".into())),
    raw("'a'"),
    raw("h'01ff'"),
    raw("h''"),
    raw("b64'AQ'"),
    raw("#"),
    raw("#6"),
    raw("#0"),
    raw("#7.20"),
    raw("#1.<n>"),
    raw("#6.<n>(int)"),
    T2::Unwrap("b".into(), vec![]),
    T2::EnumRef("g".into(), vec![]),
    T2::Name("m".into(), vec![t1(name("int"))]),
    T2::Unwrap("m".into(), vec![t1(name("int"))]),
    T2::EnumRef("m".into(), vec![t1(name("int")), t1(text("a"))]),
  ];
  if tier == Tier::Thorough {
    atoms.extend([
      raw("1e-2"),
      raw("18446744073709551615"),
      raw("-9223372036854775808"),
      raw("'it;s'"),
      raw("h'01 ff'"),
      T2::Lit(Lit::Text("a\nb".into())),
      T2::Name("m".into(), vec![t1(name("int")), t1(text("a"))]),
      name("$$g"),
    ]);
  }
  let one_entry = |k: Key, v: T2| Entry { occ: Occ::One, kind: EK::Val(Some(k), ty1(v)) };
  atoms.push(T2::EnumInline(Grp(vec![vec![one_entry(Key::Bare("x".into()), int(1)), one_entry(Key::Bare("y".into()), int(2))]])));
  let sz = |a: i128, b: i128| T2::Paren(Ty(vec![range(int(a), int(b), true)]));
  let mut t1s = vec![
    range(int(0), int(1), true),
    range(int(0), int(2), false),
    range(int(-1), int(1), true),
    range(raw("0.5"), raw("1.0"), true),
    range(int(0), name("b"), true),
    range(name("b"), name("c"), false),
    ctl(name("tstr"), "size", int(1)),
    ctl(name("tstr"), "size", sz(1, 2)),
    ctl(name("int"), "lt", int(1)),
    ctl(name("int"), "ne", raw("1.0")),
    ctl(name("tstr"), "eq", T2::Lit(Lit::Text("x\"y".into()))),
    ctl(name("tstr"), "regexp", text("a|b")),
    ctl(name("tstr"), "default", text("a")),
    ctl(name("uint"), "bits", name("b")),
    ctl(name("bstr"), "cbor", name("b")),
    ctl(name("int"), "and", name("uint")),
    ctl(name("int"), "within", name("uint")),
    ctl(text("a"), "cat", text("b")),
    ctl(int(1), "plus", int(2)),
    ctl(name("tstr"), "feature", text("f")),
    ctl(name("tstr"), "abnf", text("a = \"x\"")),
    ctl(name("b"), "ge", name("c")),
  ];
  if tier == Tier::Thorough {
    t1s.extend([
      ctl(name("tstr"), "pcre", text("a")),
      ctl(name("bstr"), "cborseq", name("b")),
      ctl(name("bstr"), "abnfb", text("a = \"x\"")),
      ctl(name("tstr"), "det", text("b")),
      ctl(name("tstr"), "b64u", name("b")),
      ctl(name("int"), "le", int(-1)),
      ctl(name("int"), "gt", raw("1e3")),
      ctl(T2::Paren(Ty(vec![t1(name("int")), t1(name("tstr"))])), "ne", int(1)),
    ]);
  }
  Cfg {
    atoms,
    t1s,
    occs: vec![
      Occ::Opt,
      Occ::Star,
      Occ::Plus,
      Occ::Range(Some(1), Some(2)),
      Occ::Range(Some(0), None),
      Occ::Range(None, Some(3)),
      Occ::Range(Some(0x10), Some(0x10)),
    ],
    map_keys: vec![
      Key::Bare("a".into()),
      Key::Bare("a-b".into()),
      Key::LitColon(Lit::Int(1)),
      Key::LitColon(Lit::Int(-1)),
      Key::LitColon(Lit::Text("k\"q".into())),
      Key::LitColon(Lit::Float(1.0)),
      Key::LitColon(Lit::BytesUtf8("a".into())),
      Key::Arrow(t1(text("a")), false),
      Key::Arrow(t1(name("tstr")), true),
      Key::Arrow(t1(int(1)), false),
      Key::Arrow(range(int(1), int(2), true), false),
      Key::Arrow(t1(T2::Paren(Ty(vec![t1(name("int")), t1(name("tstr"))]))), true),
    ],
    arr_keys: vec![Key::Bare("a".into()), Key::Arrow(t1(text("a")), false)],
    group_refs: vec!["g".into(), "$$g".into()],
    max_choice: 3,
    max_entries: 3,
    max_gchoice: 2,
    arrays: true,
    maps: true,
    inline_groups: true,
    parens: true,
    tags: vec![TagNum::Any, TagNum::Lit(1)],
    max_depth: 2,
  }
}

/// F1: one-rule documents `r = <ty>` for every type term of weight <= w
pub fn docs_types(en: &Enum, w: usize) -> Vec<String> {
  let mut out = vec![];
  for k in 1..=w {
    for t in en.types(k) {
      let mut s = String::from("r = ");
      t.write(&mut s);
      s.push('\n');
      out.push(s);
    }
  }
  out
}

/// F2: rule headers (generic parameters, sockets, /= and //=, group rules) x bodies
pub fn docs_headers(en: &Enum, w: usize) -> Vec<String> {
  let mut out = vec![];
  let mut tys: Vec<String> = vec![];
  for k in 1..=w {
    for t in en.types(k) {
      tys.push(t.render());
    }
  }
  for t in &tys {
    out.push(format!("r<t> = {t}\n"));
    out.push(format!("r<t, u> = {t}\n"));
    out.push(format!("r = int\nr /= {t}\n"));
    out.push(format!("$s /= {t}\n$s /= {t}\n"));
    out.push(format!("r = int\n$$g //= ({t})\n"));
    out.push(format!("a = int\nb = {t}\nc = tstr\n"));
    out.push(format!("a = {t}\n\n\nb<x> = {t}\n"));
  }
  // group rules over every array-style and map-style entry list
  let mut es: Vec<String> = vec![];
  for k in 1..=w {
    for map in [false, true] {
      for g in en.groups(en.cfg.max_depth - 1, k, map) {
        let mut s = String::new();
        g.write(&mut s);
        es.push(s);
      }
    }
  }
  es.sort();
  es.dedup();
  for e in &es {
    out.push(format!("r = int\ng = ({e})\n"));
    out.push(format!("r = int\ng<t> = ({e})\n"));
    out.push(format!("r = int\ng //= ({e})\n"));
    out.push(format!("g = {e}\n"));
    out.push(format!("r = [g]\ng = ? ({e})\n"));
  }
  out
}

/// F3: multi-rule documents (layout logic between rules): all ordered pairs (quick) /
/// triples (thorough) of representative rules
pub fn docs_multi(tier: Tier) -> Vec<String> {
  let rules = [
    "a = int",
    "b = int / tstr / 1.5",
    "c = { a: int, ? b: tstr }",
    "d = [ * int ]",
    "g = ( a: int, b: tstr )",
    "h<t> = [ + t ]",
    "$s /= 1",
    "$$g //= ( x: 1 )",
    "i = { a: { b: [ int, tstr ] }, * tstr => any }",
    "j = #6.1(int) / ~d / &g",
    "k = \"x\" .cat \"y\"",
    "l = { a: int // b: tstr }",
  ];
  let mut out = vec![];
  for a in rules {
    for b in rules {
      out.push(format!("{a}\n{b}\n"));
      out.push(format!("{a}\n\n{b}"));
      if tier == Tier::Thorough {
        for c in rules {
          out.push(format!("{a}\n{b}\n{c}\n"));
        }
      }
    }
  }
  out
}

pub const CONTROL_NAMES: [&str; 37] = [
  "size", "bits", "regexp", "cbor", "cborseq", "within", "and", "lt", "le", "gt", "ge", "eq", "ne", "default", "pcre", "iregexp",
  "bitfield", "cat", "det", "plus", "abnf", "abnfb", "feature", "b64u", "b64c", "b64u-sloppy", "b64c-sloppy", "hex", "hexlc",
  "hexuc", "b32", "h32", "b45", "base10", "printf", "json", "join",
];

/// F5: every registered control operator in several positions / operand shapes
pub fn docs_operators() -> Vec<String> {
  let mut out = vec![];
  for op in CONTROL_NAMES {
    for (t, a) in [("tstr", "b"), ("tstr", "\"x\""), ("uint", "1"), ("bstr", "'a'"), ("b", "(1..2)"), ("[int]", "{a: 1}")] {
      out.push(format!("r = {t} .{op} {a}\n"));
      out.push(format!("r = [* {t} .{op} {a}]\n"));
      out.push(format!("r = {{a: {t} .{op} {a}, ? {t} .{op} {a} => int}}\n"));
      out.push(format!("r = int / {t} .{op} {a} / m<{t} .{op} {a}>\n"));
    }
  }
  out
}

/// alternate spellings of one document text (token-preserving whitespace changes)
pub fn respell(text: &str, variant: usize) -> String {
  match variant {
    // minimal commas: drop ", " separators (commas are optional in groups)
    1 => text.replace(", ", " "),
    // generous whitespace / newlines after separators
    2 => text.replace(", ", " ,\n  ").replace(" / ", "\n  / ").replace(" // ", "\n  // "),
    // tabs and CRLF
    3 => text.replace(' ', "\t").replace('\n', "\r\n"),
    _ => text.to_string(),
  }
}
