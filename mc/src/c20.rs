//! C20 — ParentVisitor returns the syntactic parent of every AST node.
//! For every accepted document of the syntax space (alphabet forced to repeat identical
//! sub-expressions) an independent walk of the public AST yields every (child, parent) pair
//! of the containment relation the crate documents (the `impl_parent!` table in
//! src/ast/parent.rs); for each pair the real `CDDLType::parent` query must return the
//! expected parent — the same node (address) for nodes held by reference, an equal value's
//! syntactic parent for the two by-value kinds (`Occur`, `Value`).
use crate::core::*;
use crate::syn::*;
use crate::terms::*;
use cddl::ast::parent::ParentVisitor;
use cddl::ast::*;
use cddl::token::Value;
use serde_json::json;
use std::collections::BTreeMap;

type CT<'a> = CDDLType<'a, 'a>;

pub struct Pair<'a> {
  child: CT<'a>,
  parent: CT<'a>,
  what: &'static str,
}

fn p<'a>(out: &mut Vec<Pair<'a>>, child: CT<'a>, parent: CT<'a>, what: &'static str) {
  out.push(Pair { child, parent, what });
}

pub fn walk_cddl<'a>(c: &'a CDDL<'a>, out: &mut Vec<Pair<'a>>) {
  for r in &c.rules {
    p(out, CDDLType::Rule(r), CDDLType::CDDL(c), "rule in document");
    match r {
      Rule::Type { rule, .. } => {
        p(out, CDDLType::TypeRule(rule), CDDLType::Rule(r), "type rule in rule");
        p(out, CDDLType::Identifier(&rule.name), CDDLType::TypeRule(rule), "name of type rule");
        if let Some(g) = &rule.generic_params {
          p(out, CDDLType::GenericParams(g), CDDLType::TypeRule(rule), "generic params of type rule");
          walk_gparams(g, out);
        }
        p(out, CDDLType::Type(&rule.value), CDDLType::TypeRule(rule), "type of type rule");
        walk_type(&rule.value, out);
      }
      Rule::Group { rule, .. } => {
        p(out, CDDLType::GroupRule(rule), CDDLType::Rule(r), "group rule in rule");
        p(out, CDDLType::Identifier(&rule.name), CDDLType::GroupRule(rule), "name of group rule");
        if let Some(g) = &rule.generic_params {
          p(out, CDDLType::GenericParams(g), CDDLType::GroupRule(rule), "generic params of group rule");
          walk_gparams(g, out);
        }
        p(out, CDDLType::GroupEntry(&rule.entry), CDDLType::GroupRule(rule), "entry of group rule");
        walk_entry(&rule.entry, out);
      }
    }
  }
}

fn walk_gparams<'a>(g: &'a GenericParams<'a>, out: &mut Vec<Pair<'a>>) {
  for gp in &g.params {
    p(out, CDDLType::GenericParam(gp), CDDLType::GenericParams(g), "generic param in params");
    p(out, CDDLType::Identifier(&gp.param), CDDLType::GenericParam(gp), "identifier of generic param");
  }
}

fn walk_gargs<'a>(g: &'a GenericArgs<'a>, out: &mut Vec<Pair<'a>>) {
  for ga in &g.args {
    p(out, CDDLType::GenericArg(ga), CDDLType::GenericArgs(g), "generic arg in args");
    p(out, CDDLType::Type1(&ga.arg), CDDLType::GenericArg(ga), "type1 of generic arg");
    walk_type1(&ga.arg, out);
  }
}

fn walk_type<'a>(t: &'a Type<'a>, out: &mut Vec<Pair<'a>>) {
  for tc in &t.type_choices {
    p(out, CDDLType::TypeChoice(tc), CDDLType::Type(t), "type choice in type");
    p(out, CDDLType::Type1(&tc.type1), CDDLType::TypeChoice(tc), "type1 of type choice");
    walk_type1(&tc.type1, out);
  }
}

fn walk_type1<'a>(t: &'a Type1<'a>, out: &mut Vec<Pair<'a>>) {
  p(out, CDDLType::Type2(&t.type2), CDDLType::Type1(t), "type2 of type1");
  walk_type2(&t.type2, out);
  if let Some(op) = &t.operator {
    p(out, CDDLType::Operator(op), CDDLType::Type1(t), "operator of type1");
    p(out, CDDLType::Type2(&op.type2), CDDLType::Operator(op), "controller type2 of operator");
    walk_type2(&op.type2, out);
    p(out, CDDLType::RangeCtlOp(&op.operator), CDDLType::Operator(op), "range/control op of operator");
    if let RangeCtlOp::CtlOp { ctrl, .. } = &op.operator {
      p(out, CDDLType::ControlOperator(ctrl), CDDLType::RangeCtlOp(&op.operator), "control operator of ctlop");
    }
  }
}

fn value_of<'a>(t: &'a Type2<'a>) -> Option<Value<'a>> {
  Some(match t {
    Type2::IntValue { value, .. } => Value::INT(*value),
    Type2::UintValue { value, .. } => Value::UINT(*value),
    Type2::FloatValue { value, .. } => Value::FLOAT(*value),
    Type2::TextValue { value, .. } => Value::TEXT(value.clone()),
    _ => return None,
  })
}

fn walk_type2<'a>(t: &'a Type2<'a>, out: &mut Vec<Pair<'a>>) {
  let me = CDDLType::Type2(t);
  if let Some(v) = value_of(t) {
    p(out, CDDLType::Value(v), me.clone(), "literal value of type2");
  }
  match t {
    Type2::Typename { ident, generic_args, .. } | Type2::Unwrap { ident, generic_args, .. } | Type2::ChoiceFromGroup { ident, generic_args, .. } => {
      p(out, CDDLType::Identifier(ident), me.clone(), "identifier of type2");
      if let Some(ga) = generic_args {
        p(out, CDDLType::GenericArgs(ga), me.clone(), "generic args of type2");
        walk_gargs(ga, out);
      }
    }
    Type2::ParenthesizedType { pt, .. } => {
      p(out, CDDLType::Type(pt), me.clone(), "parenthesised type of type2");
      walk_type(pt, out);
    }
    Type2::TaggedData { t: ty, .. } => {
      if !ty.type_choices.is_empty() {
        p(out, CDDLType::Type(ty), me.clone(), "tagged type of type2");
        walk_type(ty, out);
      }
    }
    Type2::Map { group, .. } | Type2::Array { group, .. } | Type2::ChoiceFromInlineGroup { group, .. } => {
      p(out, CDDLType::Group(group), me.clone(), "group of type2");
      walk_group(group, out);
    }
    _ => {}
  }
}

fn walk_group<'a>(g: &'a Group<'a>, out: &mut Vec<Pair<'a>>) {
  for gc in &g.group_choices {
    p(out, CDDLType::GroupChoice(gc), CDDLType::Group(g), "group choice in group");
    for (ge, _) in &gc.group_entries {
      p(out, CDDLType::GroupEntry(ge), CDDLType::GroupChoice(gc), "group entry in group choice");
      walk_entry(ge, out);
    }
  }
}

fn walk_occ<'a>(o: &'a Option<Occurrence<'a>>, parent: CT<'a>, out: &mut Vec<Pair<'a>>) {
  if let Some(o) = o {
    p(out, CDDLType::Occurrence(o), parent, "occurrence of entry");
    p(out, CDDLType::Occur(o.occur), CDDLType::Occurrence(o), "occur of occurrence");
  }
}

fn walk_entry<'a>(e: &'a GroupEntry<'a>, out: &mut Vec<Pair<'a>>) {
  let me = CDDLType::GroupEntry(e);
  match e {
    GroupEntry::ValueMemberKey { ge, .. } => {
      let v = CDDLType::ValueMemberKeyEntry(ge);
      p(out, v.clone(), me, "value-member-key entry in group entry");
      walk_occ(&ge.occur, v.clone(), out);
      if let Some(mk) = &ge.member_key {
        p(out, CDDLType::MemberKey(mk), v.clone(), "member key of entry");
        match mk {
          MemberKey::Type1 { t1, .. } => {
            p(out, CDDLType::Type1(t1), CDDLType::MemberKey(mk), "type1 of member key");
            walk_type1(t1, out);
          }
          MemberKey::Bareword { ident, .. } => p(out, CDDLType::Identifier(ident), CDDLType::MemberKey(mk), "bareword of member key"),
          MemberKey::Value { value, .. } => p(out, CDDLType::Value(value.clone()), CDDLType::MemberKey(mk), "value of member key"),
          MemberKey::NonMemberKey { non_member_key, .. } => {
            p(out, CDDLType::NonMemberKey(non_member_key), CDDLType::MemberKey(mk), "non-member key");
            match non_member_key {
              NonMemberKey::Group(g) => {
                p(out, CDDLType::Group(g), CDDLType::NonMemberKey(non_member_key), "group of non-member key");
                walk_group(g, out);
              }
              NonMemberKey::Type(t) => {
                p(out, CDDLType::Type(t), CDDLType::NonMemberKey(non_member_key), "type of non-member key");
                walk_type(t, out);
              }
            }
          }
        }
      }
      p(out, CDDLType::Type(&ge.entry_type), v, "type of entry");
      walk_type(&ge.entry_type, out);
    }
    GroupEntry::TypeGroupname { ge, .. } => {
      let v = CDDLType::TypeGroupnameEntry(ge);
      p(out, v.clone(), me, "type/group-name entry in group entry");
      walk_occ(&ge.occur, v.clone(), out);
      p(out, CDDLType::Identifier(&ge.name), v.clone(), "name of type/group-name entry");
      if let Some(ga) = &ge.generic_args {
        p(out, CDDLType::GenericArgs(ga), v, "generic args of type/group-name entry");
        walk_gargs(ga, out);
      }
    }
    GroupEntry::InlineGroup { occur, group, .. } => {
      walk_occ(occur, me.clone(), out);
      p(out, CDDLType::Group(group), me, "group of inline-group entry");
      walk_group(group, out);
    }
  }
}

/// same node? address for nodes held by reference, equality for the two by-value kinds
fn same<'a>(a: &CT<'a>, b: &CT<'a>) -> bool {
  use std::ptr::eq;
  match (a, b) {
    (CDDLType::CDDL(x), CDDLType::CDDL(y)) => eq(*x, *y),
    (CDDLType::Rule(x), CDDLType::Rule(y)) => eq(*x, *y),
    (CDDLType::TypeRule(x), CDDLType::TypeRule(y)) => eq(*x, *y),
    (CDDLType::GroupRule(x), CDDLType::GroupRule(y)) => eq(*x, *y),
    (CDDLType::Group(x), CDDLType::Group(y)) => eq(*x, *y),
    (CDDLType::GroupChoice(x), CDDLType::GroupChoice(y)) => eq(*x, *y),
    (CDDLType::GenericParams(x), CDDLType::GenericParams(y)) => eq(*x, *y),
    (CDDLType::GenericParam(x), CDDLType::GenericParam(y)) => eq(*x, *y),
    (CDDLType::GenericArgs(x), CDDLType::GenericArgs(y)) => eq(*x, *y),
    (CDDLType::GenericArg(x), CDDLType::GenericArg(y)) => eq(*x, *y),
    (CDDLType::GroupEntry(x), CDDLType::GroupEntry(y)) => eq(*x, *y),
    (CDDLType::Identifier(x), CDDLType::Identifier(y)) => eq(*x, *y),
    (CDDLType::Type(x), CDDLType::Type(y)) => eq(*x, *y),
    (CDDLType::TypeChoice(x), CDDLType::TypeChoice(y)) => eq(*x, *y),
    (CDDLType::Type1(x), CDDLType::Type1(y)) => eq(*x, *y),
    (CDDLType::Type2(x), CDDLType::Type2(y)) => eq(*x, *y),
    (CDDLType::Operator(x), CDDLType::Operator(y)) => eq(*x, *y),
    (CDDLType::RangeCtlOp(x), CDDLType::RangeCtlOp(y)) => eq(*x, *y),
    (CDDLType::ControlOperator(x), CDDLType::ControlOperator(y)) => eq(*x, *y),
    (CDDLType::Occurrence(x), CDDLType::Occurrence(y)) => eq(*x, *y),
    (CDDLType::ValueMemberKeyEntry(x), CDDLType::ValueMemberKeyEntry(y)) => eq(*x, *y),
    (CDDLType::TypeGroupnameEntry(x), CDDLType::TypeGroupnameEntry(y)) => eq(*x, *y),
    (CDDLType::MemberKey(x), CDDLType::MemberKey(y)) => eq(*x, *y),
    (CDDLType::NonMemberKey(x), CDDLType::NonMemberKey(y)) => eq(*x, *y),
    // an occurrence indicator carries its span, which makes it as unique as a node held by
    // reference; compared field by field here (not with the crate's PartialEq, which is under test)
    (CDDLType::Occur(x), CDDLType::Occur(y)) => crate::shape::occur_label(x) == crate::shape::occur_label(y),
    (CDDLType::Value(x), CDDLType::Value(y)) => x == y,
    _ => false,
  }
}

fn kind(c: &CT) -> &'static str {
  match c {
    CDDLType::CDDL(_) => "CDDL",
    CDDLType::Rule(_) => "Rule",
    CDDLType::TypeRule(_) => "TypeRule",
    CDDLType::GroupRule(_) => "GroupRule",
    CDDLType::Group(_) => "Group",
    CDDLType::GroupChoice(_) => "GroupChoice",
    CDDLType::GenericParams(_) => "GenericParams",
    CDDLType::GenericParam(_) => "GenericParam",
    CDDLType::GenericArgs(_) => "GenericArgs",
    CDDLType::GenericArg(_) => "GenericArg",
    CDDLType::GroupEntry(_) => "GroupEntry",
    CDDLType::Identifier(_) => "Identifier",
    CDDLType::Type(_) => "Type",
    CDDLType::TypeChoice(_) => "TypeChoice",
    CDDLType::Type1(_) => "Type1",
    CDDLType::Type2(_) => "Type2",
    CDDLType::Operator(_) => "Operator",
    CDDLType::RangeCtlOp(_) => "RangeCtlOp",
    CDDLType::ControlOperator(_) => "ControlOperator",
    CDDLType::Occurrence(_) => "Occurrence",
    CDDLType::Occur(_) => "Occur",
    CDDLType::Value(_) => "Value",
    CDDLType::ValueMemberKeyEntry(_) => "ValueMemberKeyEntry",
    CDDLType::TypeGroupnameEntry(_) => "TypeGroupnameEntry",
    CDDLType::MemberKey(_) => "MemberKey",
    CDDLType::NonMemberKey(_) => "NonMemberKey",
  }
}

fn by_value(c: &CT) -> bool {
  matches!(c, CDDLType::Occur(_) | CDDLType::Value(_))
}

pub enum Out {
  Rejected,
  Held { pairs: usize, repeated: bool },
  Bad(Viol, usize),
}

fn describe(c: &CT) -> String {
  let s = match c {
    CDDLType::Identifier(i) => format!("{} @{:?}", i, i.span),
    CDDLType::Type2(t) => format!("{}", t),
    CDDLType::Type1(t) => format!("{}", t),
    CDDLType::Type(t) => format!("{}", t),
    CDDLType::GroupEntry(t) => format!("{}", t),
    CDDLType::Rule(r) => r.name(),
    CDDLType::TypeRule(r) => format!("{}", r.name),
    CDDLType::GroupRule(r) => format!("{}", r.name),
    CDDLType::Value(v) => format!("{}", v),
    CDDLType::Occur(o) => format!("{}", o),
    CDDLType::Occurrence(o) => format!("{}", o),
    CDDLType::GenericParam(g) => format!("{} @{:?}", g.param, g.param.span),
    _ => String::new(),
  };
  format!("{}({})", kind(c), trunc(s.trim()).replace('\n', " "))
}

pub fn check_text(text: &str) -> Out {
  let ast = match catch(|| cddl::cddl_from_str(text, false)) {
    Ok(Ok(a)) => a,
    _ => return Out::Rejected,
  };
  let mk = |kind: &str, observed: String, expected: String| Viol { kind: kind.into(), case: json!({"cddl": text}), observed, expected, finding: None };
  let r = catch(|| {
    let pv = match ParentVisitor::new(&ast) {
      Ok(pv) => pv,
      Err(e) => return Err(mk("index-build-failed", format!("ParentVisitor::new: {e}"), "Ok".into())),
    };
    if let Some(x) = CDDLType::CDDL(&ast).parent(&pv) {
      return Err(mk("root-has-parent", describe(x), "the document root has no parent".into()));
    }
    let mut pairs = vec![];
    walk_cddl(&ast, &mut pairs);
    // does the document repeat an identical sub-expression (same rendering of two distinct nodes)?
    let mut seen: BTreeMap<String, usize> = BTreeMap::new();
    for pr in &pairs {
      if !by_value(&pr.child) {
        let d = describe(&pr.child);
        let d = d.split(" @").next().unwrap_or("").to_string();
        *seen.entry(d).or_insert(0) += 1;
      }
    }
    let repeated = seen.values().any(|&n| n > 1);
    for pr in &pairs {
      let got = pr.child.parent(&pv);
      let ok = match got {
        None => false,
        Some(g) => {
          if by_value(&pr.child) {
            // no identity: some syntactic parent of an equal value is all the property can mean
            pairs.iter().any(|q| same(&q.child, &pr.child) && same(&q.parent, g))
          } else {
            same(g, &pr.parent)
          }
        }
      };
      if !ok {
        return Err(mk(
          "wrong-parent",
          format!("{}: parent query on {} returned {}", pr.what, describe(&pr.child), got.map(describe).unwrap_or_else(|| "None".into())),
          format!("{}", describe(&pr.parent)),
        ));
      }
    }
    Ok((pairs.len(), repeated))
  });
  match r {
    Ok(Ok((n, rep))) => Out::Held { pairs: n, repeated: rep },
    Ok(Err(v)) => Out::Bad(classify(v), 0),
    Err(pn) => Out::Bad(mk("panic", format!("PANIC {pn}"), "Ok".into()), 0),
  }
}

/// recorded findings (known_findings.jsonl); None = judged normally
fn classify(v: Viol) -> Viol {
  v
}

#[derive(Default)]
struct Acc {
  v: VAcc,
  docs: u64,
  accepted: u64,
  pairs: u64,
  repeated: u64,
  samples: Vec<serde_json::Value>,
}

pub fn families(tier: Tier) -> Vec<(&'static str, Vec<String>)> {
  let cfg = syntax_cfg(Tier::Quick);
  let w = std::env::var("VERIF_W").ok().and_then(|s| s.parse().ok()).unwrap_or(tier.pick(3usize, 4usize));
  let en = Enum::new(&cfg, w);
  let f1 = docs_types(&en, w);
  let f2 = docs_headers(&en, w.min(3));
  let f3 = docs_multi(tier);
  // forced repetition: the same body twice in one document / the same sub-expression twice in one rule
  let mut f4 = vec![];
  let small = Enum::new(&cfg, tier.pick(2, 3));
  for k in 1..=tier.pick(2usize, 3usize) {
    for t in small.types(k) {
      let s = t.render();
      f4.push(format!("a = {s}\nb = {s}\n"));
      f4.push(format!("a = [{s}, {s}]\n"));
      f4.push(format!("a = {{x: {s}, y: {s}}}\n"));
      f4.push(format!("a<t> = {s} / t\nb<t> = {s} / t\n"));
      f4.push(format!("a = {s} / {s}\ng = (? {s}, ? {s})\n"));
    }
  }
  let mut out = vec![("types", f1), ("rule_headers", f2), ("multi_rule", f3), ("forced_repetition", f4)];
  if tier == Tier::Thorough {
    out.push(("control_operators", docs_operators()));
  }
  out
}

pub fn run(tier: Tier) -> i32 {
  quiet_panics();
  let mut run = Run::new("C20", tier, "model_checking");
  for (label, docs) in families(tier) {
    let accs = par_sweep(docs.len(), 64, Acc::default, |i, a: &mut Acc| {
      a.docs += 1;
      match check_text(&docs[i]) {
        Out::Rejected => {}
        Out::Held { pairs, repeated } => {
          a.accepted += 1;
          a.pairs += pairs as u64;
          a.repeated += repeated as u64;
          if a.samples.is_empty() && repeated && i % 509 == 3 {
            a.samples.push(json!({"cddl": docs[i], "parent_queries": pairs}));
          }
        }
        Out::Bad(v, _) => {
          a.accepted += 1;
          a.v.push(v);
        }
      }
    });
    let (mut d, mut ac, mut pr, mut rp) = (0, 0, 0, 0);
    for a in accs {
      run.absorb(a.v);
      d += a.docs;
      ac += a.accepted;
      pr += a.pairs;
      rp += a.repeated;
      for s in a.samples {
        run.sample(s);
      }
    }
    run.states += ac;
    run.transitions += pr;
    run.traces += pr;
    run.nontrivial += rp;
    run.evaluations += d;
    run.set(&format!("family_{label}"), json!({"texts": d, "accepted": ac, "parent_queries": pr, "documents_with_repeated_subexpression": rp}));
  }
  run.rule = "state = one accepted document; transition = one (child, parent) edge of its AST, produced by an independent walk of the public AST fields following the \
    containment relation the crate documents (impl_parent! table). For every edge the real ParentVisitor is queried: the answer must be the expected parent node \
    itself (address identity) for nodes held by reference; for the by-value kinds Occur and Value, which have no identity, the parent of some equal value. Also: index \
    construction succeeds and the root has no parent. Documents: the C06 syntax families (all type terms up to the weight bound, rule headers, multi-rule documents) \
    plus a forced-repetition family (the same body in two rules, the same sub-expression twice in an array / map / choice / generic rules). \
    non-trivial = documents in which two distinct nodes have the same printed form (where equality-based lookup could confuse them)."
    .into();
  run.finish()
}

pub fn replay(case: &serde_json::Value) -> Option<Viol> {
  match check_text(case["cddl"].as_str()?) {
    Out::Bad(v, _) => Some(v),
    _ => None,
  }
}
