//! C03 — the parser accepts exactly the RFC 8610 / 9682 grammar (+ the documented leniencies)
//! and mirrors it in the AST.
//! Reference: an Earley recogniser (this file) for the ABNF of RFC 8610 Appendix B as updated
//! by RFC 9682, written down below in an ABNF-like notation, with the crate's *documented*
//! deviations built in (tab as white space, a final comment without line break, h"..."
//! byte strings, '#(type)', '#6' / '#6.n' without content (the grammar file's own example), registered
//! control names only, decimal-only float mantissa).
//! state = a text: every sequence of <= N symbols over a token alphabet, every single-character
//! edit of the structured documents. Oracle: the crate accepts <=> the recogniser derives the
//! text (rejections for semantic reasons - duplicate rule, invalid literal content - are not
//! syntax verdicts and are don't-care); for texts built from a known derivation (rule headers)
//! the AST must show the same rules in order with name, socket prefix, kind, assignment
//! operator and generic parameters.
use crate::core::*;
use crate::syn::*;
use serde_json::json;
use std::collections::{BTreeMap, HashMap, HashSet};

// ---------------------------------------------------------------- the grammar

/// RFC 8610 Appendix B with RFC 9682 (empty document, head-number, #7, text escapes) in an
/// ABNF-like notation: literals are case-sensitive here; %xNN-NN are code point ranges.
const GRAMMAR: &str = r##"
cddl = S *(rule S)
rule = typename [genericparm] S assignt S type / groupname [genericparm] S assigng S grpent
typename = id
groupname = id
assignt = "=" / "/="
assigng = "=" / "//="
genericparm = "<" S id S *("," S id S) ">"
genericarg = "<" S type1 S *("," S type1 S) ">"
type = type1 *(S "/" S type1)
type1 = type2 [S (rangeop / ctlop) S type2]
type2 = value / typename [genericarg] / "(" S type S ")" / "{" S group S "}" / "[" S group S "]" / "~" S typename [genericarg] / "&" S "(" S group S ")" / "&" S groupname [genericarg] / "#" "6" ["." headnumber] "(" S type S ")" / "#" "6" ["." headnumber] / "#" "7" ["." headnumber] / "#" DIGIT ["." uint] / "#" / "#" "(" S type S ")"
headnumber = uint / "<" type ">"
rangeop = "..." / ".."
ctlop = "." ctlname
group = grpchoice *(S "//" S grpchoice)
grpchoice = *(grpent optcom)
grpent = [occur S] [memberkey S] type / [occur S] groupname [genericarg] / [occur S] "(" S group S ")"
memberkey = type1 S ["^" S] "=>" / bareword S ":" / value S ":"
bareword = id
optcom = S ["," S]
occur = [uint] "*" [uint] / "+" / "?"
uint = DIGIT1 *DIGIT / "0x" 1*HEXDIG / "0b" 1*BINDIG / "0"
value = number / text / bytes
int = ["-"] uint
decint = ["-"] (DIGIT1 *DIGIT / "0")
number = hexfloat / int / decint "." fraction ["e" exponent] / decint "e" exponent
hexfloat = ["-"] "0x" 1*HEXDIG ["." 1*HEXDIG] "p" exponent
fraction = 1*DIGIT
exponent = ["+" / "-"] 1*DIGIT
text = %x22 *SCHAR %x22
SCHAR = %x20-21 / %x23-5B / %x5D-7E / %x80-10FFFD / SESC
SESC = "\" (%x22 / "/" / "\" / "b" / "f" / "n" / "r" / "t" / "u" hexchar)
hexchar = "{" 1*HEXDIG "}" / HEX4
HEX4 = HEXDIG HEXDIG HEXDIG HEXDIG
bytes = [bsqual] %x27 *BCHAR %x27 / "h" %x22 *HQCHAR %x22
BCHAR = %x20-26 / %x28-5B / %x5D-10FFFD / "\" (%x20-10FFFD / %x09 / CRLF) / CRLF / %x09
HQCHAR = %x20-21 / %x23-10FFFD / CRLF / %x09
bsqual = "h" / "b64"
id = EALPHA *(*("-" / ".") (EALPHA / DIGIT))
ALPHA = %x41-5A / %x61-7A
EALPHA = ALPHA / "@" / "_" / "$"
DIGIT = %x30-39
DIGIT1 = %x31-39
HEXDIG = DIGIT / %x41-46 / %x61-66
BINDIG = %x30-31
S = *WS
WS = SP / NL / %x09
SP = %x20
NL = COMMENT / CRLF
COMMENT = ";" *PCHAR CRLF
PCHAR = %x20-7E / %x80-10FFFD / %x09
CRLF = %x0A / %x0D %x0A
"##;

#[derive(Clone, Debug)]
enum Sym {
  T(u32, u32), // code point range
  N(usize),    // nonterminal
}

pub struct Grammar {
  names: Vec<String>,
  prods: Vec<Vec<Vec<Sym>>>, // per nonterminal: alternatives
  nullable: Vec<bool>,
  start: usize,
  /// lexical nonterminals that follow the longest-match convention: id, uint, number
  lex: [usize; 4],
}

struct GP<'a> {
  b: &'a [u8],
  i: usize,
  g: &'a mut GB,
}
#[derive(Default)]
struct GB {
  names: Vec<String>,
  index: HashMap<String, usize>,
  prods: Vec<Vec<Vec<Sym>>>,
}
impl GB {
  fn nt(&mut self, name: &str) -> usize {
    if let Some(&i) = self.index.get(name) {
      return i;
    }
    self.names.push(name.to_string());
    self.prods.push(vec![]);
    self.index.insert(name.to_string(), self.names.len() - 1);
    self.names.len() - 1
  }
  fn fresh(&mut self, hint: &str) -> usize {
    let n = format!("{hint}#{}", self.names.len());
    self.nt(&n)
  }
}
impl<'a> GP<'a> {
  fn ws(&mut self) {
    while self.i < self.b.len() && self.b[self.i] == b' ' {
      self.i += 1;
    }
  }
  /// alternation := concatenation *("/" concatenation)  -> a nonterminal
  fn alternation(&mut self) -> usize {
    let n = self.g.fresh("alt");
    loop {
      let seq = self.concatenation();
      self.g.prods[n].push(seq);
      self.ws();
      if self.i < self.b.len() && self.b[self.i] == b'/' {
        self.i += 1;
        continue;
      }
      break;
    }
    n
  }
  fn concatenation(&mut self) -> Vec<Sym> {
    let mut seq = vec![];
    loop {
      self.ws();
      if self.i >= self.b.len() || matches!(self.b[self.i], b'/' | b')' | b']') {
        break;
      }
      seq.extend(self.repetition());
    }
    seq
  }
  fn repetition(&mut self) -> Vec<Sym> {
    // [n]*element | n element | element
    let s = self.i;
    let mut min: Option<usize> = None;
    let mut num = String::new();
    while self.i < self.b.len() && self.b[self.i].is_ascii_digit() {
      num.push(self.b[self.i] as char);
      self.i += 1;
    }
    if self.i < self.b.len() && self.b[self.i] == b'*' {
      self.i += 1;
      min = Some(num.parse().unwrap_or(0));
      let e = self.element();
      // star := e star | empty ; min copies in front
      let star = self.g.fresh("star");
      let mut rec = e.clone();
      rec.push(Sym::N(star));
      self.g.prods[star].push(rec);
      self.g.prods[star].push(vec![]);
      let mut out = vec![];
      for _ in 0..min.unwrap() {
        out.extend(e.clone());
      }
      out.push(Sym::N(star));
      return out;
    }
    self.i = s;
    let _ = min;
    self.element()
  }
  fn element(&mut self) -> Vec<Sym> {
    self.ws();
    let c = self.b[self.i];
    match c {
      b'(' => {
        self.i += 1;
        let n = self.alternation();
        self.ws();
        assert_eq!(self.b[self.i], b')', "grammar: expected )");
        self.i += 1;
        vec![Sym::N(n)]
      }
      b'[' => {
        self.i += 1;
        let n = self.alternation();
        self.ws();
        assert_eq!(self.b[self.i], b']', "grammar: expected ]");
        self.i += 1;
        let o = self.g.fresh("opt");
        self.g.prods[o].push(vec![Sym::N(n)]);
        self.g.prods[o].push(vec![]);
        vec![Sym::N(o)]
      }
      b'"' => {
        self.i += 1;
        let s = self.i;
        while self.b[self.i] != b'"' {
          self.i += 1;
        }
        let lit = &self.b[s..self.i];
        self.i += 1;
        lit.iter().map(|&ch| Sym::T(ch as u32, ch as u32)).collect()
      }
      b'%' => {
        // %xNN[-NN]
        self.i += 2;
        let hex = |p: &mut GP| {
          let s = p.i;
          while p.i < p.b.len() && p.b[p.i].is_ascii_hexdigit() {
            p.i += 1;
          }
          u32::from_str_radix(std::str::from_utf8(&p.b[s..p.i]).unwrap(), 16).unwrap()
        };
        let lo = hex(self);
        let hi = if self.i < self.b.len() && self.b[self.i] == b'-' {
          self.i += 1;
          hex(self)
        } else {
          lo
        };
        vec![Sym::T(lo, hi)]
      }
      _ => {
        let s = self.i;
        while self.i < self.b.len() && (self.b[self.i].is_ascii_alphanumeric()) {
          self.i += 1;
        }
        assert!(self.i > s, "grammar: unexpected {:?} at {}", c as char, self.i);
        let name = std::str::from_utf8(&self.b[s..self.i]).unwrap().to_string();
        vec![Sym::N(self.g.nt(&name))]
      }
    }
  }
}

pub fn grammar() -> Grammar {
  let mut gb = GB::default();
  for line in GRAMMAR.lines() {
    let line = line.trim();
    if line.is_empty() {
      continue;
    }
    let (name, rhs) = line.split_once(" = ").expect("grammar line");
    let n = gb.nt(name.trim());
    let mut p = GP { b: rhs.as_bytes(), i: 0, g: &mut gb };
    let a = p.alternation();
    assert!(p.i >= p.b.len(), "grammar: trailing text in {name}");
    gb.prods[n].push(vec![Sym::N(a)]);
  }
  // control names: the registered list
  let c = gb.nt("ctlname");
  for op in CONTROL_NAMES {
    gb.prods[c].push(op.bytes().map(|b| Sym::T(b as u32, b as u32)).collect());
  }
  for (i, p) in gb.prods.iter().enumerate() {
    assert!(!p.is_empty(), "grammar: undefined rule {}", gb.names[i]);
  }
  let n = gb.names.len();
  let mut nullable = vec![false; n];
  loop {
    let mut ch = false;
    for i in 0..n {
      if !nullable[i] && gb.prods[i].iter().any(|alt| alt.iter().all(|s| matches!(s, Sym::N(k) if nullable[*k]))) {
        nullable[i] = true;
        ch = true;
      }
    }
    if !ch {
      break;
    }
  }
  let start = gb.index["cddl"];
  let lex = [gb.index["id"], gb.index["uint"], gb.index["number"], gb.index["ctlname"]];
  Grammar { names: gb.names, prods: gb.prods, nullable, start, lex }
}

// ---------------------------------------------------------------- Earley recogniser

impl Grammar {
  /// does the grammar derive `text`? (a final comment need not end in a line break: documented leniency)
  pub fn derives(&self, text: &str) -> bool {
    let mut cs: Vec<u32> = text.chars().map(|c| c as u32).collect();
    if cs.last() != Some(&0x0a) {
      cs.push(0x0a);
    }
    let n = cs.len();
    // The ABNF is a character-level grammar; like every reader of it (RFC 8610 section 3.1 and its remark that `min..max`
    // needs blanks around names) the recogniser reads identifiers and numbers by longest match: an `id`, `uint` or
    // `number` that starts at o ends where the longest such token starting at o ends.
    let longest: [Vec<usize>; 4] = [
      (0..n).map(|o| longest_id(&cs, o)).collect(),
      (0..n).map(|o| longest_uint(&cs, o)).collect(),
      (0..n).map(|o| longest_number(&cs, o)).collect(),
      (0..n).map(|o| longest_id(&cs, o)).collect(), // a control name is an id (ctlop = "." id)
    ];
    // item = (nonterminal, alternative, dot, origin)
    type Item = (u32, u16, u16, u32);
    let mut sets: Vec<Vec<Item>> = vec![vec![]; n + 1];
    let mut seen: Vec<HashSet<Item>> = vec![HashSet::new(); n + 1];
    let add = |sets: &mut Vec<Vec<Item>>, seen: &mut Vec<HashSet<Item>>, k: usize, it: Item| {
      if seen[k].insert(it) {
        sets[k].push(it);
      }
    };
    for a in 0..self.prods[self.start].len() {
      add(&mut sets, &mut seen, 0, (self.start as u32, a as u16, 0, 0));
    }
    for k in 0..=n {
      let mut j = 0;
      while j < sets[k].len() {
        let (nt, alt, dot, org) = sets[k][j];
        j += 1;
        let rhs = &self.prods[nt as usize][alt as usize];
        if (dot as usize) < rhs.len() {
          match &rhs[dot as usize] {
            Sym::N(m) => {
              for a in 0..self.prods[*m].len() {
                add(&mut sets, &mut seen, k, (*m as u32, a as u16, 0, k as u32));
              }
              if self.nullable[*m] {
                add(&mut sets, &mut seen, k, (nt, alt, dot + 1, org));
              }
            }
            Sym::T(lo, hi) => {
              if k < n && cs[k] >= *lo && cs[k] <= *hi {
                add(&mut sets, &mut seen, k + 1, (nt, alt, dot + 1, org));
              }
            }
          }
        } else {
          // complete
          let o = org as usize;
          if let Some(x) = self.lex.iter().position(|&l| l == nt as usize) {
            if o < n && k - o != longest[x][o] {
              continue;
            }
          }
          let mut i = 0;
          while i < sets[o].len() {
            let (pn, pa, pd, po) = sets[o][i];
            i += 1;
            let prhs = &self.prods[pn as usize][pa as usize];
            if (pd as usize) < prhs.len() {
              if let Sym::N(m) = &prhs[pd as usize] {
                if *m as u32 == nt {
                  add(&mut sets, &mut seen, k, (pn, pa, pd + 1, po));
                }
              }
            }
          }
        }
      }
      if k < n && sets[k + 1].is_empty() {
        return false;
      }
    }
    sets[n].iter().any(|&(nt, alt, dot, org)| nt as usize == self.start && org == 0 && dot as usize == self.prods[nt as usize][alt as usize].len())
  }
}

fn is_ealpha(c: u32) -> bool {
  (0x41..=0x5a).contains(&c) || (0x61..=0x7a).contains(&c) || c == '@' as u32 || c == '_' as u32 || c == '$' as u32
}
fn is_digit(c: u32) -> bool {
  (0x30..=0x39).contains(&c)
}
fn is_hex(c: u32) -> bool {
  is_digit(c) || (0x41..=0x46).contains(&c) || (0x61..=0x66).contains(&c)
}
/// length of the longest id starting at o (0 = none)
fn longest_id(cs: &[u32], o: usize) -> usize {
  if o >= cs.len() || !is_ealpha(cs[o]) {
    return 0;
  }
  let mut end = o + 1;
  let mut i = o + 1;
  loop {
    let mut j = i;
    while j < cs.len() && (cs[j] == '-' as u32 || cs[j] == '.' as u32) {
      j += 1;
    }
    if j < cs.len() && (is_ealpha(cs[j]) || is_digit(cs[j])) {
      end = j + 1;
      i = j + 1;
    } else {
      return end - o;
    }
  }
}
fn longest_uint(cs: &[u32], o: usize) -> usize {
  if o >= cs.len() || !is_digit(cs[o]) {
    return 0;
  }
  if cs[o] == '0' as u32 {
    if o + 2 < cs.len() + 0 && o + 1 < cs.len() && cs[o + 1] == 'x' as u32 {
      let mut j = o + 2;
      while j < cs.len() && is_hex(cs[j]) {
        j += 1;
      }
      if j > o + 2 {
        return j - o;
      }
    }
    if o + 1 < cs.len() && cs[o + 1] == 'b' as u32 {
      let mut j = o + 2;
      while j < cs.len() && (cs[j] == '0' as u32 || cs[j] == '1' as u32) {
        j += 1;
      }
      if j > o + 2 {
        return j - o;
      }
    }
    return 1;
  }
  let mut j = o;
  while j < cs.len() && is_digit(cs[j]) {
    j += 1;
  }
  j - o
}
fn digits(cs: &[u32], mut j: usize) -> usize {
  while j < cs.len() && is_digit(cs[j]) {
    j += 1;
  }
  j
}
fn exponent_end(cs: &[u32], j: usize) -> Option<usize> {
  // ["+" / "-"] 1*DIGIT starting at j
  let mut k = j;
  if k < cs.len() && (cs[k] == '+' as u32 || cs[k] == '-' as u32) {
    k += 1;
  }
  let e = digits(cs, k);
  (e > k).then_some(e)
}
fn longest_number(cs: &[u32], o: usize) -> usize {
  let mut p = o;
  if p < cs.len() && cs[p] == '-' as u32 {
    p += 1;
  }
  if p >= cs.len() || !is_digit(cs[p]) {
    return 0;
  }
  let mut best = p + longest_uint(cs, p); // int
  // hexfloat
  if cs[p] == '0' as u32 && p + 1 < cs.len() && cs[p + 1] == 'x' as u32 {
    let mut j = p + 2;
    while j < cs.len() && is_hex(cs[j]) {
      j += 1;
    }
    if j > p + 2 {
      let mut m = j;
      if m < cs.len() && cs[m] == '.' as u32 {
        let mut f = m + 1;
        while f < cs.len() && is_hex(cs[f]) {
          f += 1;
        }
        if f > m + 1 {
          m = f;
        }
      }
      if m < cs.len() && cs[m] == 'p' as u32 {
        if let Some(e) = exponent_end(cs, m + 1) {
          best = best.max(e);
        }
      }
    }
  }
  // decimal float: decint ["." fraction] ["e" exponent]
  let d = if cs[p] == '0' as u32 { p + 1 } else { digits(cs, p) };
  let mut m = d;
  let mut is_float = false;
  if m < cs.len() && cs[m] == '.' as u32 {
    let f = digits(cs, m + 1);
    if f > m + 1 {
      m = f;
      is_float = true;
    }
  }
  if m < cs.len() && cs[m] == 'e' as u32 {
    if let Some(e) = exponent_end(cs, m + 1) {
      m = e;
      is_float = true;
    }
  }
  if is_float {
    best = best.max(m);
  }
  best - o
}

// ---------------------------------------------------------------- the space

/// token alphabet: every symbol is a complete lexical piece or a separator
pub const SYMBOLS: [&str; 40] = [
  "a", "b1", "$s", "=", "/=", "//=", " ", "\n", "/", "//", "(", ")", "{", "}", "[", "]", "<", ">", ",", ":", "=>", "^", "*", "?", "+", "1", "0x1", "-1", "1.5", "\"x\"", "'x'", "..", "...", ".",
  "size", "#", "#6.1", "~", "&", ";c\n",
];

fn sequences(l: usize, f: &mut dyn FnMut(&str)) {
  // all sequences of exactly l symbols, as texts prefixed with the rule head "r = " or raw
  let mut idx = vec![0usize; l];
  let mut s = String::new();
  loop {
    s.clear();
    for &i in &idx {
      s.push_str(SYMBOLS[i]);
    }
    f(&s);
    let mut p = 0;
    loop {
      if p == l {
        return;
      }
      idx[p] += 1;
      if idx[p] < SYMBOLS.len() {
        break;
      }
      idx[p] = 0;
      p += 1;
    }
  }
}

fn semantic_rejection(msg: &str) -> bool {
  if msg.contains("Invalid member key") {
    return false; // a statement about which key forms exist: grammar, not content
  }
  // rejections that are not statements about the grammar: duplicate rules, invalid literal content, numeric range
  ["already defined", "missing definition", "invalid", "Invalid", "overflow", "out of range", "too large", "escape", "base64", "hex", "utf-8", "UTF-8", "not a valid", "unknown control"].iter().any(|k| msg.contains(k))
}

#[derive(Default)]
struct Acc {
  v: VAcc,
  n: u64,
  accepted: u64,
  dc: u64,
  kinds: BTreeMap<String, u64>,
}

fn judge(g: &Grammar, text: &str, a: &mut Acc) {
  a.n += 1;
  let derivable = g.derives(text);
  let got = catch(|| cddl::cddl_from_str(text, false).map(|_| ()).map_err(|e| e.to_string()));
  match got {
    Err(p) => a.v.push(Viol { kind: "panic".into(), case: json!({"cddl": text}), observed: format!("PANIC {p}"), expected: "Ok or Err".into(), finding: None }),
    Ok(Ok(())) => {
      a.accepted += 1;
      if !derivable {
        let v = viol("accepted-but-not-derivable", text, "accepted".into(), "rejected: the ABNF (with the documented leniencies) does not derive this text");
        *a.kinds.entry(v.kind.clone()).or_insert(0) += 1;
        a.v.push(v);
      }
    }
    Ok(Err(e)) => {
      if derivable {
        if semantic_rejection(&e) {
          a.dc += 1;
          return;
        }
        let v = viol("derivable-but-rejected", text, format!("rejected: {}", trunc(&e)), "accepted: the ABNF derives this text");
        *a.kinds.entry(v.kind.clone()).or_insert(0) += 1;
        a.v.push(v);
      }
    }
  }
}

pub const F_DOLLAR: &str = "C03-identifiers-with-bare-dollar-or-repeated-separators-rejected";
pub const F_SOCKETKIND: &str = "C03-socket-prefix-tied-to-the-kind-of-rule";
pub const F_RULEENTRY: &str = "C03-rule-level-group-entry-with-key-or-occurrence-rejected";
pub const F_PARENFIRST: &str = "C03-parenthesised-type-first-in-a-group-entry-rejected";
pub const F_MIRROR: &str = "C03-ast-does-not-mirror-the-derivation";
pub const F_BSESC: &str = "C03-escaped-quote-in-a-byte-string-literal-rejected";
pub const F_HEADTYPE: &str = "C03-type-valued-head-number-accepted-for-every-major-type";
pub const F_TRAILS: &str = "C03-blank-accepted-before-the-closing-angle-of-a-head-number";

/// a `$` that does not start a socket name the crate knows ($name, $$name), or an identifier with a run of separators
fn odd_identifier(text: &str) -> bool {
  let cs: Vec<char> = text.chars().collect();
  let start = |c: char| c.is_ascii_alphabetic() || c == '@' || c == '_';
  let cont = |c: char| c.is_ascii_alphanumeric() || c == '@' || c == '_' || c == '$';
  let mut i = 0;
  let mut quote: Option<char> = None;
  while i < cs.len() {
    let c = cs[i];
    if let Some(q) = quote {
      if c == '\\' {
        i += 2;
        continue;
      }
      if c == q {
        quote = None;
      }
      i += 1;
      continue;
    }
    if c == '"' || c == '\'' {
      quote = Some(c);
    } else if c == ';' {
      while i < cs.len() && cs[i] != '\n' {
        i += 1;
      }
      continue;
    } else if c == '$' && (i == 0 || !cont(cs[i - 1])) {
      let mut j = i;
      while j < cs.len() && cs[j] == '$' {
        j += 1;
      }
      if j - i > 2 || j >= cs.len() || !start(cs[j]) {
        return true;
      }
    } else if start(c) && (i == 0 || !(cont(cs[i - 1]) || cs[i - 1] == '-' || cs[i - 1] == '.')) {
      // an identifier starts here: scan it by longest match and look for a run of separators inside
      let mut j = i + 1;
      loop {
        let mut k = j;
        while k < cs.len() && (cs[k] == '-' || cs[k] == '.') {
          k += 1;
        }
        if k < cs.len() && cont(cs[k]) {
          if k - j >= 2 {
            return true;
          }
          j = k + 1;
        } else {
          break;
        }
      }
      i = j;
      continue;
    }
    i += 1;
  }
  false
}

fn viol(kind: &str, text: &str, observed: String, expected: &str) -> Viol {
  let mut v = Viol { kind: kind.into(), case: json!({"cddl": text}), observed, expected: expected.into(), finding: None };
  let k = statelist::key(&[text]);
  // recorded findings: a coarse sort by root cause, then the committed state list of that finding decides
  let id = match kind {
    "derivable-but-rejected" => {
      if text.contains("\\'") {
        Some(F_BSESC)
      } else if odd_identifier(text) {
        Some(F_DOLLAR)
      } else if text.contains('$') {
        Some(F_SOCKETKIND)
      } else if v.observed.contains("rule definition") || v.observed.contains("member key, group name") {
        Some(F_RULEENTRY)
      } else if text.contains("( (") || text.contains("((") || v.observed.contains("group_choice_op, group entry") || v.observed.contains("range operator") {
        Some(F_PARENFIRST)
      } else {
        None
      }
    }
    "accepted-but-not-derivable" if ["#0.<", "#1.<", "#2.<", "#3.<", "#4.<", "#5.<", "#8.<", "#9.<"].iter().any(|p| text.contains(p)) => Some(F_HEADTYPE),
    "accepted-but-not-derivable" if text.contains("#6.<") || text.contains("#7.<") => Some(F_TRAILS),
    "ast-mirror" => Some(F_MIRROR),
    _ => None,
  };
  if let Some(id) = id {
    if statelist::listed(id, k) {
      v.finding = Some(id.to_string());
    }
  }
  v
}

/// a frozen copy of C16's nested family as of the time the known-finding lists were recorded: the lists are keyed by text,
/// so this check must not follow later growth of another check's documents
fn nested_frozen() -> Vec<String> {
  let inner = ["int / tstr", "int / tstr / bool", "1 .. 2", "tstr .size 3", "x: int / tstr", "x: int, y: tstr / bool", "a: 1 // b: 2", "* int / tstr", "? x: int // tstr"];
  let boxes = ["( _ )", "[ _ ]", "{ _ }", "#6.1( _ )", "n< _ >", "m< int, _ >", "{ _ => int }", "[ * ( _ ) ]", "&( _ )", "{ k: ( _ ), y: bool }", "[ ( _ ), bool ]", "( _ ) / bool", "bool / ( _ )"];
  let mut out = vec![];
  for i in inner {
    for b in boxes {
      let t = b.replace('_', i);
      out.push(format!("r = {t}\nm<a, b> = [a, b]\nn<a> = a\n"));
      for b2 in ["[ _ ]", "{ z: _ }", "( _ )"] {
        out.push(format!("r = {}\n", b2.replace('_', &t)));
      }
    }
  }
  // wide groups: three group choices, more than three entries (the printer switches layout at both thresholds)
  for w in ["a: int // b: tstr // c: bool", "int // tstr // bool", "a: int, b: tstr, c: bool, d: nil", "a: 1, b: 2 // c: 3, d: 4 // e: 5", "a: int, b: tstr, c: bool, d: nil // e: int", "a: 1, b: 2, c: 3, d: 4 // e: 5 // f: 6",
    // literals holding the other quote character, and entries with nested structure, in a group of three choices
    "\"it's\", tstr // 'say \"hi', int // bool", "a: { k: int, l: tstr } // b: [ int, tstr ] // c: int / tstr"] {
    for b in ["{ _ }", "[ _ ]", "&( _ )"] {
      out.push(format!("r = {}\n", b.replace('_', w)));
    }
    out.push(format!("g = ( {w} )\nr = int\n"));
  }
  for i in inner {
    out.push(format!("g = ( {i} )\nr = int\n"));
    out.push(format!("g<t> = ( {i} )\nr = int\n"));
  }
  out
}

/// structured documents and every single-character deletion / substitution / insertion of a probe
fn mutants(tier: Tier) -> Vec<String> {
  let mut base: Vec<String> = docs_multi(Tier::Quick).into_iter().step_by(tier.pick(13, 3)).collect();
  base.extend(nested_frozen().into_iter().step_by(tier.pick(11, 2)));
  base.extend(docs_operators().into_iter().step_by(tier.pick(17, 3)));
  base.extend(
    [
      "a = { ? b: int, * tstr => any, c ^ => 1, (d: 1 // e: 2), 2*3 f }\nf = (1, 2)\n",
      "m<k, v> = { * k => v }\nx = m<tstr, int> / #6.32(tstr) / #7.25 / #1.5 / ~y / &(p: 1) / &q\ny = [int]\nq = (r: 1)\n",
      "n = 0x1F / 0b101 / -1 / 1.5e+3 / 0x1.8p-3 / \"a\\n\\u{1F600}\" / 'b' / h'01 ff' / b64'AQ' / 1..2 / 1...3\n",
      "$s /= 1\n$$g //= (a: 1)\n; comment\nt = tstr .size (1..3) ; trailing",
      "",
      " \n",
      "a = #\nb = #6.<a>(int)\nc = #(int)\nd = h\"01\"\n",
      "t = \"\\u{0000061}\" / \"\\u{00000000}\" / \"\\u{0}\" / \"\\u{10FFFF}\" / \"\\u0061\\ud83d\\ude00\"\n",
      "u = #8 / #9.1 / #0.0x10 / #7.25 / #7.<u>\n",
      "w = 'it\\'s' / 'a\\\\b' / h'01'\n",
      "v = { 'k': int, h'01': tstr, b64'AQ': 1, -1: 2, 1.5: 3, \"s\": 4 }\n",
    ]
    .iter()
    .map(|s| s.to_string()),
  );
  // every registered control name once (an alternative order or boundary mistake in the name list shows on the name itself)
  for op in CONTROL_NAMES {
    base.push(format!("r = tstr .{op} b\n"));
  }
  let probes = ['a', '1', ' ', '.', '/', '-', '(', ')', '*', '"', ';', '\t', '$', '<', ','];
  let mut out = vec![];
  for b in &base {
    out.push(b.clone());
    let cs: Vec<char> = b.chars().collect();
    for i in 0..=cs.len() {
      if i < cs.len() {
        let mut d = String::new();
        for (k, c) in cs.iter().enumerate() {
          if k != i {
            d.push(*c);
          }
        }
        out.push(d);
      }
      for p in probes {
        let mut s: String = cs[..i].iter().collect();
        s.push(p);
        s.extend(cs[i..].iter());
        out.push(s);
        if i < cs.len() && tier == Tier::Thorough {
          let mut s: String = cs[..i].iter().collect();
          s.push(p);
          s.extend(cs[i + 1..].iter());
          out.push(s);
        }
      }
    }
  }
  out.sort();
  out.dedup();
  out
}

// ---------------------------------------------------------------- AST mirror (rule level)

#[derive(Clone, Debug, PartialEq)]
struct Head {
  name: String,
  group: bool,
  assign: &'static str,
  params: Vec<String>,
}

/// documents assembled from rule heads whose derivation is known by construction
fn head_documents(tier: Tier) -> Vec<(String, Vec<Head>)> {
  let names = ["a", "b-c.d", "$s", "$$g", "@x_1", "_"];
  let params: [&[&str]; 3] = [&[], &["t"], &["k", "v-1"]];
  // (assign, body, is group)
  let bodies: [(&str, &str, bool); 7] =
    [("=", "int", false), ("/=", "1 / 2", false), ("=", "{ x: 1 }", false), ("=", "( x: 1 )", true), ("//=", "( y: 2 )", true), ("=", "x: int", true), ("//=", "* z", true)];
  let mut rules: Vec<(String, Head)> = vec![];
  for n in names {
    for p in params {
      for (asg, body, grp) in bodies {
        let ps = if p.is_empty() { String::new() } else { format!("<{}>", p.join(", ")) };
        rules.push((format!("{n}{ps} {asg} {body}"), Head { name: n.to_string(), group: grp, assign: asg, params: p.iter().map(|s| s.to_string()).collect() }));
      }
    }
  }
  let mut out = vec![];
  for (t, h) in &rules {
    out.push((format!("{t}\n"), vec![h.clone()]));
  }
  // pairs (order must be kept); duplicates are avoided by construction: different names, or extension operators
  let step = tier.pick(5, 1);
  for (i, (t1, h1)) in rules.iter().enumerate().step_by(step) {
    for (t2, h2) in rules.iter().skip(i % 3).step_by(step) {
      if h1.name == h2.name && !(h2.assign != "=") {
        continue;
      }
      out.push((format!("{t1}\n{t2}\n"), vec![h1.clone(), h2.clone()]));
    }
  }
  out
}

/// D. composition mirror: the AST of a group built from choices and entries is the composition of the ASTs of its entries,
/// exactly as the derivation group = grpchoice *("//" grpchoice), grpchoice = *(grpent optcom) composes them
fn composition_mirror(tier: Tier, run: &mut Run) -> u64 {
  let entries: Vec<&str> = match tier {
    Tier::Quick => vec!["int", "a: 1", "? b", "* tstr => any"],
    Tier::Thorough => vec!["int", "a: 1", "? b", "* tstr => any", "\"k\": 1", "2*3 c ^ => 1", "( x: 1 )"],
  };
  let mut n = 0u64;
  for (open, close, kind) in [("[ ", " ]", "array"), ("{ ", " }", "map"), ("&( ", " )", "enum")] {
    let prefix = "cddl(typerule<=>(ident<r> type(type1(";
    // shape of one entry inside this container
    let mut eshape: Vec<String> = vec![];
    let mut head = String::new();
    for e in &entries {
      let text = format!("r = {open}{e}{close}\n");
      let Ok(Ok(ast)) = catch(|| cddl::cddl_from_str(&text, false)) else {
        println!("ENGINE-ERROR C03: composition base {text:?} rejected");
        return n;
      };
      let sh = crate::shape::cddl(&ast).shape();
      // cddl(typerule<=>(ident<r> type(type1(KIND(group(gchoice(X)))))))
      let Some(a) = sh.find("(group(gchoice(") else { continue };
      head = sh[prefix.len()..a].to_string();
      let inner = &sh[a + "(group(gchoice(".len()..];
      let x = &inner[..inner.len() - ")))))))".len()];
      eshape.push(x.to_string());
    }
    let _ = kind;
    // choices: each 0..2 entries; 1..3 choices
    let mut choices: Vec<Vec<usize>> = vec![vec![]];
    for i in 0..entries.len() {
      choices.push(vec![i]);
      for j in 0..entries.len() {
        choices.push(vec![i, j]);
      }
    }
    let nc = choices.len();
    let maxc = 3;
    let mut idx = vec![0usize; 1];
    loop {
      // text and expected shape
      let parts: Vec<String> = idx.iter().map(|&c| choices[c].iter().map(|&e| entries[e]).collect::<Vec<_>>().join(", ")).collect();
      let text = format!("r = {open}{}{close}\n", parts.join(" // "));
      let exp_choices: Vec<String> = idx
        .iter()
        .map(|&c| if choices[c].is_empty() { "gchoice".to_string() } else { format!("gchoice({})", choices[c].iter().map(|&e| eshape[e].clone()).collect::<Vec<_>>().join(" ")) })
        .collect();
      let expected = format!("{prefix}{head}(group({}))))))", exp_choices.join(" "));
      n += 1;
      match catch(|| cddl::cddl_from_str(&text, false)) {
        Ok(Ok(ast)) => {
          let got = crate::shape::cddl(&ast).shape();
          if got != expected {
            run.viol(viol("ast-mirror", &text, format!("AST shape {}", crate::c06::first_diff(&expected, &got)), "the composition of the entries' own ASTs: one group choice per '//'-separated alternative (empty ones included), the entries in order"));
          }
        }
        Ok(Err(e)) => {
          let e = e.to_string();
          if !semantic_rejection(&e) {
            run.viol(viol("derivable-but-rejected", &text, format!("rejected: {}", trunc(&e)), "accepted: composed from the ABNF's group / grpchoice / grpent alternatives"));
          }
        }
        Err(p) => run.viol(Viol { kind: "panic".into(), case: json!({"cddl": text}), observed: p, expected: "Ok or Err".into(), finding: None }),
      }
      // next
      let mut p = 0;
      loop {
        if p == idx.len() {
          if idx.len() == maxc {
            idx.clear();
          } else {
            idx = vec![0; idx.len() + 1];
          }
          break;
        }
        idx[p] += 1;
        if idx[p] < nc {
          break;
        }
        idx[p] = 0;
        p += 1;
      }
      if idx.is_empty() {
        break;
      }
    }
  }
  n
}

/// E. atom mirror: every type2 alternative of the ABNF spelled once with the node the derivation gives it, in four contexts
fn atom_mirror(run: &mut Run) -> u64 {
  let mut atoms: Vec<(String, String)> = vec![("#".into(), "anyhash".into())];
  for n in 0..=9u8 {
    if n != 6 {
      atoms.push((format!("#{n}"), format!("major<{n}>")));
      for (m, v) in [("0", "0"), ("25", "25"), ("0x10", "16")] {
        atoms.push((format!("#{n}.{m}"), format!("major<{n}.{v}>")));
      }
    }
  }
  atoms.push(("#7.<n>".into(), "major<7.<n>>".into()));
  let int = "type(type1(typename(ident<int>)))";
  atoms.push(("#6.1(int)".into(), format!("tag<.1>({int})")));
  atoms.push(("#6.0x10(int)".into(), format!("tag<.16>({int})")));
  atoms.push(("#6.<n>(int)".into(), format!("tag<.<n>>({int})")));
  atoms.push(("#6(int)".into(), format!("tag({int})")));
  atoms.push(("#(int)".into(), format!("tag({int})")));
  atoms.push(("~a".into(), "unwrap(ident<a>)".into()));
  atoms.push(("&b".into(), "enum_ref(ident<b>)".into()));
  atoms.push(("m<int>".into(), "typename(ident<m> gargs(garg(type1(typename(ident<int>)))))".into()));
  atoms.push(("(int)".into(), format!("paren({int})")));
  atoms.push(("$s".into(), "typename(ident<$s>)".into()));
  let lib = "a = [1]\nb = (x: 1)\nn = 1\nm<t> = t\n$s /= 1\n";
  let mut n = 0u64;
  for ctx in ["r = @", "r = [@]", "r = {k: @}", "r = tstr / @"] {
    // the context's own shape, taken from the placeholder atom 'bool'
    let base = format!("{}\n{lib}", ctx.replace('@', "bool"));
    let Ok(Ok(ast)) = catch(|| cddl::cddl_from_str(&base, false)) else { continue };
    let bshape = crate::shape::cddl(&ast).shape();
    let hole = "typename(ident<bool>)";
    if bshape.matches(hole).count() != 1 {
      continue;
    }
    for (sp, want) in &atoms {
      let text = format!("{}\n{lib}", ctx.replace('@', sp));
      let expected = bshape.replace(hole, want);
      n += 1;
      match catch(|| cddl::cddl_from_str(&text, false)) {
        Ok(Ok(ast)) => {
          let got = crate::shape::cddl(&ast).shape();
          if got != expected {
            run.viol(viol("ast-mirror", &text, format!("AST shape {}", crate::c06::first_diff(&expected, &got)), &format!("the node of the ABNF alternative: {want}")));
          }
        }
        Ok(Err(e)) => {
          let e = e.to_string();
          if !semantic_rejection(&e) {
            run.viol(viol("derivable-but-rejected", &text, format!("rejected: {}", trunc(&e)), "accepted: a type2 alternative of the ABNF"));
          }
        }
        Err(p) => run.viol(Viol { kind: "panic".into(), case: json!({"cddl": text}), observed: p, expected: "Ok or Err".into(), finding: None }),
      }
    }
    // operators: type1 = type2 [S (rangeop / ctlop) S type2] keeps target, operator and controller apart, whatever the atoms
    let hole1 = "type1(typename(ident<bool>))";
    if bshape.matches(hole1).count() != 1 {
      continue;
    }
    let operands: Vec<&(String, String)> = atoms.iter().filter(|(sp, _)| ["#", "#0", "#7.25", "(int)", "~a", "m<int>", "$s", "#6.1(int)"].contains(&sp.as_str())).collect();
    for (op, label) in [(".within", ".WITHIN"), (".and", ".AND"), (".size", ".SIZE"), (".default", ".DEFAULT"), ("..", ".."), ("...", "...")] {
      for (tsp, tw) in &operands {
        for (csp, cw) in &operands {
          let text = format!("{}\n{lib}", ctx.replace('@', &format!("{tsp} {op} {csp}")));
          let expected = bshape.replace(hole1, &format!("type1({tw} op<{label}> {cw})"));
          n += 1;
          match catch(|| cddl::cddl_from_str(&text, false)) {
            Ok(Ok(ast)) => {
              let got = crate::shape::cddl(&ast).shape();
              if got != expected {
                run.viol(viol("ast-mirror", &text, format!("AST shape {}", crate::c06::first_diff(&expected, &got)), "type1 keeps target, operator and controller as written"));
              }
            }
            Ok(Err(e)) => {
              let e = e.to_string();
              if !semantic_rejection(&e) {
                run.viol(viol("derivable-but-rejected", &text, format!("rejected: {}", trunc(&e)), "accepted: type1 = type2 S operator S type2"));
              }
            }
            Err(p) => run.viol(Viol { kind: "panic".into(), case: json!({"cddl": text}), observed: p, expected: "Ok or Err".into(), finding: None }),
          }
        }
      }
    }
  }
  n
}

fn heads_of(ast: &cddl::ast::CDDL) -> Vec<Head> {
  use cddl::ast::Rule;
  ast
    .rules
    .iter()
    .map(|r| match r {
      Rule::Type { rule, .. } => Head {
        name: format!("{}{}", sock(&rule.name), rule.name.ident),
        group: false,
        assign: if rule.is_type_choice_alternate { "/=" } else { "=" },
        params: rule.generic_params.as_ref().map(|g| g.params.iter().map(|p| p.param.ident.to_string()).collect()).unwrap_or_default(),
      },
      Rule::Group { rule, .. } => Head {
        name: format!("{}{}", sock(&rule.name), rule.name.ident),
        group: true,
        assign: if rule.is_group_choice_alternate { "//=" } else { "=" },
        params: rule.generic_params.as_ref().map(|g| g.params.iter().map(|p| p.param.ident.to_string()).collect()).unwrap_or_default(),
      },
    })
    .collect()
}
fn sock(i: &cddl::ast::Identifier) -> &'static str {
  match i.socket {
    Some(cddl::token::SocketPlug::TYPE) => "$",
    Some(cddl::token::SocketPlug::GROUP) => "$$",
    None => "",
  }
}

pub fn run(tier: Tier) -> i32 {
  quiet_panics();
  let _g = silence_stderr();
  let mut run = Run::new("C03", tier, "model_checking");
  let g = grammar();
  // harness sanity: the recogniser derives the repository's own example documents and rejects plain garbage
  for (t, want) in [("a = int\n", true), ("", true), ("a = ", false), ("a = { b: int, ? c: [* tstr] }\n", true), ("= a", false), ("a = tstr .size 3", true), ("a = tstr . size 3", false), ("a = {bool}", true), ("a = { int / bool => 1 }", false), ("a = 1.5e3 / 0x1p3 / 0x1F / 1..2 / x .. y", true), ("a = tstr.size 3", false)] {
    if g.derives(t) != want {
      println!("ENGINE-ERROR C03: recogniser self-test failed on {t:?}");
      return 2;
    }
  }
  // A. every sequence of <= L symbols, as a whole document and as the body of a rule
  let l = std::env::var("VERIF_W").ok().and_then(|s| s.parse().ok()).unwrap_or(tier.pick(3usize, 4usize));
  let mut texts: Vec<String> = vec![];
  for k in 0..=l {
    sequences(k, &mut |s| {
      texts.push(s.to_string());
    });
  }
  let n_raw = texts.len();
  let accs = par_sweep(n_raw * 2, 256, Acc::default, |x, a: &mut Acc| {
    let t = &texts[x / 2];
    if x % 2 == 0 {
      judge(&g, t, a);
    } else {
      judge(&g, &format!("r = {t}"), a);
    }
  });
  // B. single-character edits of structured documents
  let ms = mutants(tier);
  let accs2 = par_sweep(ms.len(), 64, Acc::default, |x, a: &mut Acc| judge(&g, &ms[x], a));
  // C. rule-level mirror
  let hd = head_documents(tier);
  let mut mirror_n = 0u64;
  for (text, want) in &hd {
    mirror_n += 1;
    match catch(|| cddl::cddl_from_str(text, false)) {
      Ok(Ok(ast)) => {
        let mut got = heads_of(&ast);
        // a name with a socket prefix carries its kind in the prefix ($ type, $$ group): the ABNF's first alternative and
        // the prefix can disagree ('$$g = int'); which of the two names the kind is not judged
        for (g, w) in got.iter_mut().zip(want.iter()) {
          if g.name.starts_with('$') {
            g.group = w.group;
          }
        }
        if &got != want {
          run.viol(viol("ast-mirror", text, format!("rules in the AST: {got:?}"), &format!("one rule per grammar-level rule, in source order, with name, socket prefix, kind, assignment operator and generic parameters: {want:?}")));
        }
      }
      Ok(Err(e)) => {
        let e = e.to_string();
        if !semantic_rejection(&e) {
          run.viol(viol("derivable-but-rejected", text, format!("rejected: {}", trunc(&e)), "accepted: the document is built from the grammar's rule alternatives"));
        }
      }
      Err(p) => run.viol(Viol { kind: "panic".into(), case: json!({"cddl": text}), observed: p, expected: "Ok or Err".into(), finding: None }),
    }
  }
  let comp_n = composition_mirror(tier, &mut run);
  mirror_n += comp_n;
  let atom_n = atom_mirror(&mut run);
  mirror_n += atom_n;
  let (mut n, mut acc, mut dc) = (0, 0, 0);
  let mut kinds: BTreeMap<String, u64> = BTreeMap::new();
  for a in accs.into_iter().chain(accs2) {
    run.absorb(a.v);
    n += a.n;
    acc += a.accepted;
    dc += a.dc;
    for (k, v) in a.kinds {
      *kinds.entry(k).or_insert(0) += v;
    }
  }
  run.sample(json!({"text": "r = a:1", "derivable": g.derives("r = a:1"), "parser_accepts": cddl::cddl_from_str("r = a:1", false).is_ok()}));
  run.sample(json!({"text": texts.get(n_raw / 2).cloned().unwrap_or_default(), "family": "symbol sequences"}));
  run.sample(json!({"text": ms.get(ms.len() / 3).cloned().unwrap_or_default(), "family": "single-character edits"}));
  run.sample(json!({"text": hd.get(hd.len() / 2).map(|h| h.0.clone()).unwrap_or_default(), "family": "rule heads", "expected_heads": hd.get(hd.len() / 2).map(|h| format!("{:?}", h.1))}));
  run.states = n + mirror_n;
  run.transitions = n + mirror_n;
  run.traces = n + mirror_n;
  run.evaluations = n + mirror_n;
  run.nontrivial = acc;
  run.set("texts_symbol_sequences", json!(n_raw * 2));
  run.set("texts_single_edit_mutants", json!(ms.len()));
  run.set("texts_rule_head_documents", json!(hd.len()));
  run.set("texts_group_compositions", json!(comp_n));
  run.set("texts_atom_mirror", json!(atom_n));
  run.set("accepted_by_the_parser", json!(acc));
  run.set("dont_care_semantic_rejections", json!(dc));
  run.set("violations_by_kind", json!(kinds));
  run.set("symbols", json!(SYMBOLS.to_vec()));
  run.rule = format!(
    "state = a text. A: every sequence of <= {l} symbols over a 40-symbol token alphabet (identifiers, socket, the three assignment operators, blank, line break, every bracket, \
     separators, occurrence marks, numbers in four spellings, text and byte literals, range operators, '.', a control name, '#', a tag, '~', '&', a comment), each as a whole document and as \
     the body of 'r = ...'. B: the structured documents (multi-rule, nested, control-operator families, hand-written documents using every alternative of the ABNF) and every \
     single-character deletion and insertion of 15 probe characters (thorough: also substitutions). Oracle: an Earley recogniser for RFC 8610 Appendix B + RFC 9682 as written at the top \
     of mc/src/c03.rs with the documented leniencies (tab, final comment without line break, h\"..\", #(type), registered control names, decimal-only float mantissa): accepted <=> derivable; \
     rejections whose message names a semantic reason (duplicate rule, invalid literal content) are don't-care. C: documents assembled from rule heads of known derivation (6 names incl. \
     sockets x 3 generic-parameter lists x 7 assignment / body forms, singly and in ordered pairs): the AST lists the same rules in order with name, socket prefix, kind, assignment \
     operator and generic parameters. D: arrays, maps and '&( )' groups composed of 1-3 '//'-separated choices of 0-2 entries over an entry alphabet (4; thorough 7: plain type, bareword \
     key, occurrence + name, typed key, value key, cut, inline group): the AST shape equals the composition of the shapes the entries have on their own (one group choice per alternative, \
     empty ones included). E: every type2 alternative ('#', '#n', '#n.m', '#7.<t>', the four tag forms, '~a', '&b', generic application, parenthesised type, socket) in four contexts: \
     the AST node is the one the ABNF alternative denotes (major type and head number kept); 6 operators x 8 x 8 atom operands: target, operator and controller as written."
  );
  run.finish()
}

pub fn replay(case: &serde_json::Value) -> Option<Viol> {
  let text = case["cddl"].as_str()?;
  let g = grammar();
  let mut a = Acc::default();
  judge(&g, text, &mut a);
  a.v.viols.into_iter().next()
}
