//! C11 — CBOR decoding implements RFC 8949 well-formedness and values.
use crate::cborref::*;
use crate::core::*;
use cddl::validator::cbor_value::decode_cbor;
use serde_json::json;

/// Pattern vocabulary for known findings (closed, reviewed). Returns the id of the
/// pattern a disagreement matches, judged on the input bytes and both observations.
fn classify(bytes: &[u8], exp: &Result<(RV, usize), RErr>, got: &Result<RV, String>) -> Option<String> {
  match (exp, got) {
    (Ok((e, _)), Ok(g)) => {
      // value mismatch: only attributable if the *sole* difference is undefined->null
      let mut u = false;
      if rv_eq(e, g, &mut u) && u {
        return Some("C11-undefined-decoded-as-null".into());
      }
      None
    }
    (Err(RErr::BadSimple), Ok(_)) => Some("C11-two-byte-simple-below-32-accepted".into()),
    (Err(RErr::BadChunk), Ok(_)) => {
      // only the "indefinite chunk inside indefinite string" shape
      let _ = bytes;
      Some("C11-indefinite-chunk-inside-indefinite-string-accepted".into())
    }
    _ => None,
  }
}

pub fn check_bytes(bytes: &[u8]) -> Option<Viol> {
  let exp = ref_decode(bytes);
  let got = match catch(|| decode_cbor(bytes)) {
    Ok(r) => r.map(|v| impl_to_rv(&v)).map_err(|e| format!("{e}")),
    Err(p) => {
      return Some(Viol {
        kind: "decode".into(),
        case: json!({"hex": hex(bytes)}),
        observed: format!("panic: {p}"),
        expected: format!("{:?}", exp.as_ref().map(|x| rv_to_diag(&x.0))),
        finding: None,
      })
    }
  };
  let agree = match (&exp, &got) {
    (Ok((e, _)), Ok(g)) => {
      let mut u = false;
      rv_eq(e, g, &mut u) && !u
    }
    (Err(_), Err(_)) => true,
    _ => false,
  };
  if agree {
    return None;
  }
  Some(Viol {
    kind: "decode".into(),
    case: json!({"hex": hex(bytes)}),
    observed: match &got {
      Ok(v) => format!("Ok({})", rv_to_diag(v)),
      Err(e) => format!("Err({e})"),
    },
    expected: match &exp {
      Ok((v, n)) => format!("Ok({}) consuming {} bytes", rv_to_diag(v), n),
      Err(e) => format!("Err({e:?})"),
    },
    finding: classify(bytes, &exp, &got),
  })
}

/// pre-scan: does any head announce a length that the in-process sweep should not
/// hand to a pre-allocating decoder? (those inputs belong to C05's isolated workers)
fn hostile(bytes: &[u8]) -> bool {
  // conservative: any 4- or 8-byte argument on mt 2..5 with value > 2^20 anywhere
  let mut i = 0;
  while i < bytes.len() {
    let b = bytes[i];
    let mt = b >> 5;
    let ai = b & 0x1f;
    if (2..=5).contains(&mt) {
      let n: u64 = match ai {
        26 if i + 4 < bytes.len() => u32::from_be_bytes([bytes[i + 1], bytes[i + 2], bytes[i + 3], bytes[i + 4]]) as u64,
        27 if i + 8 < bytes.len() => u64::from_be_bytes(bytes[i + 1..i + 9].try_into().unwrap()),
        _ => 0,
      };
      if n > (1 << 20) {
        return true;
      }
    }
    i += 1;
  }
  false
}

pub fn value_universe(t: Tier) -> Vec<RV> {
  let mut atoms = vec![
    RV::Uint(0),
    RV::Uint(23),
    RV::Uint(24),
    RV::Uint(255),
    RV::Uint(256),
    RV::Uint(65535),
    RV::Uint(65536),
    RV::Uint(u32::MAX as u64),
    RV::Uint(u32::MAX as u64 + 1),
    RV::Uint(i64::MAX as u64),
    RV::Uint(i64::MAX as u64 + 1),
    RV::Uint(u64::MAX),
    RV::Nint(0),
    RV::Nint(23),
    RV::Nint(24),
    RV::Nint(255),
    RV::Nint(256),
    RV::Nint(i64::MAX as u64),
    RV::Nint(i64::MAX as u64 + 1),
    RV::Nint(u64::MAX),
    RV::Bytes(vec![]),
    RV::Bytes(vec![1]),
    RV::Bytes(vec![0xff, 0x00, 0x61]),
    RV::Text("".into()),
    RV::Text("a".into()),
    RV::Text("a\u{e9}\u{1F600}".into()),
    RV::Simple(0),
    RV::Simple(19),
    RV::Simple(20),
    RV::Simple(21),
    RV::Simple(22),
    RV::Simple(23),
    RV::Simple(32),
    RV::Simple(255),
    RV::Float(0.0),
    RV::Float(-0.0),
    RV::Float(1.0),
    RV::Float(1.5),
    RV::Float(65504.0),
    RV::Float(5.960464477539063e-8),
    RV::Float(100000.0),
    RV::Float(3.4028234663852886e38),
    RV::Float(1.1),
    RV::Float(f64::INFINITY),
    RV::Float(f64::NEG_INFINITY),
    RV::Float(f64::NAN),
  ];
  let small = vec![RV::Uint(1), RV::Nint(0), RV::Text("a".into()), RV::Bytes(vec![7]), RV::Simple(23), RV::Float(1.5), RV::Simple(21)];
  let mut l1 = vec![];
  for t in [0u64, 1, 2, 24, 55799, u64::MAX] {
    for x in &small {
      l1.push(RV::Tag(t, Box::new(x.clone())));
    }
  }
  l1.push(RV::Array(vec![]));
  l1.push(RV::Map(vec![]));
  for x in &small {
    l1.push(RV::Array(vec![x.clone()]));
    for y in &small {
      l1.push(RV::Array(vec![x.clone(), y.clone()]));
      l1.push(RV::Map(vec![(x.clone(), y.clone())]));
    }
  }
  // duplicate / equivalent keys keep every pair, in order
  l1.push(RV::Map(vec![(RV::Uint(1), RV::Uint(1)), (RV::Uint(1), RV::Uint(2))]));
  l1.push(RV::Map(vec![(RV::Uint(1), RV::Uint(1)), (RV::Float(1.0), RV::Uint(2))]));
  l1.push(RV::Map(vec![(RV::Text("b".into()), RV::Uint(1)), (RV::Text("a".into()), RV::Uint(2))]));
  l1.push(RV::Array((0..24).map(RV::Uint).collect()));
  l1.push(RV::Text("x".repeat(24)));
  l1.push(RV::Bytes(vec![9; 256]));
  let mut l2 = vec![];
  let pick: Vec<RV> = l1.iter().step_by(t.pick(7, 2)).cloned().collect();
  for x in &pick {
    l2.push(RV::Array(vec![x.clone(), RV::Uint(1)]));
    l2.push(RV::Map(vec![(RV::Text("k".into()), x.clone())]));
    l2.push(RV::Map(vec![(x.clone(), RV::Uint(0))]));
    l2.push(RV::Tag(99, Box::new(x.clone())));
  }
  if t == Tier::Thorough {
    let pick2: Vec<RV> = l2.iter().step_by(5).cloned().collect();
    for x in &pick2 {
      l2.push(RV::Array(vec![RV::Array(vec![x.clone()])]));
    }
  }
  atoms.extend(l1);
  atoms.extend(l2);
  atoms
}

const SUBST: [u8; 24] = [
  0x00, 0x17, 0x18, 0x1c, 0x1f, 0x20, 0x3c, 0x3f, 0x40, 0x5c, 0x5f, 0x60, 0x7e, 0x7f, 0x80, 0x9f, 0xbf, 0xc0, 0xdf, 0xe0, 0xf7, 0xf8, 0xfe,
  0xff,
];

pub fn run(tier: Tier) -> i32 {
  quiet_panics();
  let mut run = Run::new("C11", tier, "model_checking");
  let maxlen = tier.pick(3usize, 4usize);
  run.rule = format!(
    "state = one byte string. Space A: every byte string of length 0..={maxlen} (exhaustive). Space B: for every value of a {}-value \
     CBOR data-model universe (integers at all head-width boundaries, strings, all simple values classes, floats of all widths incl. \
     ±0/inf/NaN, tags, nested arrays/maps incl. duplicate and equivalent keys) every encoding with <=2 deviations from preferred \
     (non-minimal head, indefinite length, chunking into <=3 chunks, wider float), every proper prefix and every single-byte \
     substitution (24-byte alphabet, every position) of each encoding with <= {} deviations; byte strings deduplicated per value. Space C: indefinite-length text and byte strings cut into 1-3 chunks at every byte position (also inside multi-byte characters), both chunk-head widths, alone and nested in array / map / indefinite map / tag. Space D: strings, arrays and maps with 0,1,23,24,25,255,256,257,4095,4096,4097 (thorough: ..65537) elements under every admissible head width and indefinite length, complete, one element short, one element over, and followed by a sibling. Space E: text and byte strings whose payload crosses a 4096-byte block edge with a 2-4 byte character at every offset around the edge (definite, one chunk, cut inside the character, as map key and value), flat arrays / indefinite arrays / maps of 16..400 tagged items, and tag, array and map nests 16..300 deep. Oracle: independent RFC 8949 Appendix-C style decoder; Ok/Err equality and \
     data-model value equality (NaN payload ignored). transition = append one byte (A) / apply one deviation, truncation or substitution (B). \
     non-trivial = distinct inputs that begin with a well-formed item (the reference returns a value).",
    value_universe(tier).len(),
    tier.pick(0, 1)
  );
  #[derive(Default)]
  struct Acc {
    n: u64,
    edges: u64,
    ok: u64,
    v: VAcc,
    err_kinds: std::collections::BTreeMap<String, u64>,
  }
  fn note(a: &mut Acc, bytes: &[u8]) {
    a.n += 1;
    match ref_decode(bytes) {
      Ok(_) => a.ok += 1,
      Err(e) => *a.err_kinds.entry(format!("{e:?}")).or_insert(0) += 1,
    }
    if let Some(v) = check_bytes(bytes) {
      a.v.push(v);
    }
  }
  // ---- space A
  let mut total_a: u64 = 0;
  let mut errk = std::collections::BTreeMap::new();
  for len in 0..=maxlen {
    let n: usize = 256usize.pow(len as u32);
    let accs = par_sweep(n, 1 << 14, Acc::default, |i, a: &mut Acc| {
      let mut b = [0u8; 4];
      let mut x = i;
      for k in (0..len).rev() {
        b[k] = (x & 0xff) as u8;
        x >>= 8;
      }
      note(a, &b[..len]);
    });
    for a in accs {
      total_a += a.n;
      run.nontrivial += a.ok;
      run.absorb(a.v);
      for (k, c) in a.err_kinds {
        *errk.entry(k).or_insert(0u64) += c;
      }
    }
  }
  run.set("spaceA_states", json!(total_a));
  // ---- space B
  let uni = value_universe(tier);
  let mutdev = tier.pick(0usize, 1usize);
  let accs = par_sweep(uni.len(), 1, Acc::default, |i, a: &mut Acc| {
    let v = &uni[i];
    let encs = encodings(v, 2);
    // distinct byte strings derived from this value: deduplicated by a 64-bit hash (the byte
    // strings themselves are not kept - the thorough tier ran out of memory keeping them)
    let mut seen: std::collections::HashSet<u64> = Default::default();
    let mut visit = |a: &mut Acc, b: &[u8]| {
      if seen.insert(statelist::key(&[&hex(b)])) {
        note(a, b);
      }
    };
    for (e, d) in &encs {
      if hostile(e) {
        continue;
      }
      // the encoding itself must decode to v (self-check of the reference codec and the generator)
      match ref_decode(e) {
        Ok((rv, n)) => {
          let mut u = false;
          assert!(rv_eq(v, &rv, &mut u) && !u && n == e.len(), "reference codec self-check failed on {}", hex(e));
        }
        Err(x) => panic!("reference codec rejects own encoding {} {:?}", hex(e), x),
      }
      visit(a, e);
      // a trailing byte is tolerated ("begins with")
      let mut t = e.clone();
      t.push(0xff);
      visit(a, &t);
      if *d > mutdev || e.len() > 300 {
        continue;
      }
      for k in 0..e.len() {
        visit(a, &e[..k]);
      }
      for k in 0..e.len().min(40) {
        for s in SUBST {
          if e[k] != s {
            let mut m = e.clone();
            m[k] = s;
            if !hostile(&m) {
              visit(a, &m);
            }
          }
        }
      }
    }
    a.edges += encs.len() as u64;
  });
  let mut total_b = 0;
  for a in accs {
    total_b += a.n;
    run.nontrivial += a.ok;
    run.absorb(a.v);
    for (k, c) in a.err_kinds {
      *errk.entry(k).or_insert(0u64) += c;
    }
  }
  run.set("spaceB_states", json!(total_b));
  // ---- space C: indefinite-length strings chunked at EVERY byte position (also inside a
  // multi-byte character: each chunk of a text string must be valid UTF-8 on its own), with
  // every chunk-head width, alone and nested in an array / as a map value / under a tag
  let mut cases: Vec<Vec<u8>> = vec![];
  for (mt, payload) in [(3u8, "a\u{e9}\u{20ac}\u{1F600}".as_bytes().to_vec()), (3, "\u{e9}".as_bytes().to_vec()), (2, vec![0xc3, 0xa9, 0xff, 0x00])] {
    let n = payload.len();
    // all ways to cut the payload into 1..=3 chunks
    let mut cuts: Vec<Vec<usize>> = vec![vec![]];
    for i in 1..n {
      cuts.push(vec![i]);
      for j in i + 1..n {
        cuts.push(vec![i, j]);
      }
    }
    for c in cuts {
      for wide in [false, true] {
        let mut b = vec![(mt << 5) | 31];
        let mut prev = 0;
        for end in c.iter().copied().chain([n]) {
          let len = end - prev;
          if wide {
            b.push((mt << 5) | 24);
            b.push(len as u8);
          } else {
            b.push((mt << 5) | len as u8);
          }
          b.extend_from_slice(&payload[prev..end]);
          prev = end;
        }
        b.push(0xff);
        cases.push(b.clone());
        let mut arr = vec![0x82, 0x01];
        arr.extend_from_slice(&b);
        cases.push(arr);
        let mut map = vec![0xa1, 0x01];
        map.extend_from_slice(&b);
        cases.push(map);
        let mut nested = vec![0x81, 0xbf, 0x61, 0x6b];
        nested.extend_from_slice(&b);
        nested.push(0xff);
        cases.push(nested);
        let mut tag = vec![0xc1];
        tag.extend_from_slice(&b);
        cases.push(tag);
      }
    }
  }
  // ---- space D: containers and strings at the element counts where head width or internal
  // buffering changes (23/24, 255/256, 4095/4096/4097, 65535/65536), definite with every head
  // width and indefinite, complete, one element short, and followed by a sibling
  let counts: Vec<usize> = tier.pick(vec![0, 1, 23, 24, 25, 255, 256, 257, 4095, 4096, 4097], vec![0, 1, 23, 24, 25, 255, 256, 257, 4095, 4096, 4097, 8192, 65535, 65536, 65537]);
  fn head(mt: u8, n: u64, width: u8) -> Option<Vec<u8>> {
    Some(match width {
      0 if n < 24 => vec![(mt << 5) | n as u8],
      1 if n < 256 => vec![(mt << 5) | 24, n as u8],
      2 if n < 65536 => vec![(mt << 5) | 25, (n >> 8) as u8, n as u8],
      4 if n < (1 << 32) => {
        let mut v = vec![(mt << 5) | 26];
        v.extend_from_slice(&(n as u32).to_be_bytes());
        v
      }
      8 => {
        let mut v = vec![(mt << 5) | 27];
        v.extend_from_slice(&n.to_be_bytes());
        v
      }
      _ => return None,
    })
  }
  for &n in &counts {
    for mt in [2u8, 3, 4, 5] {
      let unit: &[u8] = match mt {
        2 => &[0x07],
        3 => b"x",
        4 => &[0x01],
        _ => &[0x01, 0x02],
      };
      for width in [0u8, 1, 2, 4, 8] {
        let Some(h) = head(mt, n as u64, width) else { continue };
        for present in [n, n.saturating_sub(1), n + 1] {
          let mut b = h.clone();
          for _ in 0..present {
            b.extend_from_slice(unit);
          }
          cases.push(b.clone());
          // as first element of an array followed by a sibling text "x"
          let mut arr = vec![0x82];
          arr.extend_from_slice(&b);
          arr.extend_from_slice(&[0x61, 0x78]);
          cases.push(arr);
        }
      }
      if mt >= 4 {
        let mut b = vec![(mt << 5) | 31];
        for _ in 0..n {
          b.extend_from_slice(unit);
        }
        b.push(0xff);
        cases.push(b);
      }
    }
  }
  // space E: long and wide items. (1) text / byte strings whose payload crosses a 4096-byte block with a 2-4 byte
  // character at every offset around the block edge (definite, as one chunk, and cut inside the character);
  // (2) flat containers holding 16..400 tagged items, and tag / array nests 16..300 deep.
  for (ch, w) in [("\u{e9}", 2usize), ("\u{20ac}", 3), ("\u{1F600}", 4)] {
    for k in [1usize, 2] {
      for p in (4096 * k - w - 1)..=(4096 * k + 1) {
        for tail in [0usize, 1, 5] {
          let mut payload = vec![b'a'; p];
          payload.extend_from_slice(ch.as_bytes());
          payload.extend(std::iter::repeat(b'b').take(tail));
          for mt in [3u8, 2] {
            let mut b = head(mt, payload.len() as u64, 2).unwrap();
            b.extend_from_slice(&payload);
            cases.push(b.clone());
            let mut ind = vec![(mt << 5) | 31];
            ind.extend_from_slice(&b);
            ind.push(0xff);
            cases.push(ind);
            // two chunks cut one byte into the character (text: each chunk must be valid UTF-8 on its own)
            let cut = p + 1;
            let mut two = vec![(mt << 5) | 31];
            two.extend(head(mt, cut as u64, 2).unwrap());
            two.extend_from_slice(&payload[..cut]);
            two.extend(head(mt, (payload.len() - cut) as u64, 2).unwrap());
            two.extend_from_slice(&payload[cut..]);
            two.push(0xff);
            cases.push(two);
            // as a map value after a long key
            let mut m = vec![0xa1];
            m.extend_from_slice(&b);
            m.extend_from_slice(&b);
            cases.push(m);
          }
        }
      }
    }
  }
  for n in [16usize, 64, 255, 256, 257, 300, 400] {
    let mut arr = head(4, n as u64, 2).unwrap();
    let mut ind = vec![0x9f];
    let mut map = head(5, n as u64, 2).unwrap();
    for i in 0..n {
      arr.extend_from_slice(&[0xc1, 0x01]);
      ind.extend_from_slice(&[0xd8, 0x20, 0x61, 0x75]);
      map.extend(head(0, i as u64, 0).or_else(|| head(0, i as u64, 1)).or_else(|| head(0, i as u64, 2)).unwrap());
      map.extend_from_slice(&[0xc2, 0x41, 0x01]);
    }
    ind.push(0xff);
    cases.push(arr);
    cases.push(ind);
    cases.push(map);
    if n <= 300 {
      let mut tags = vec![0xc1; n];
      tags.push(0x01);
      cases.push(tags);
      let mut nest = vec![0x81; n];
      nest.push(0x01);
      cases.push(nest);
      let mut mnest = vec![];
      for _ in 0..n {
        mnest.extend_from_slice(&[0xa1, 0x00]);
      }
      mnest.push(0x01);
      cases.push(mnest);
    }
  }
  let accs = par_sweep(cases.len(), 8, Acc::default, |i, a: &mut Acc| note(a, &cases[i]));
  let mut total_c = 0;
  for a in accs {
    total_c += a.n;
    run.nontrivial += a.ok;
    run.absorb(a.v);
    for (k, c) in a.err_kinds {
      *errk.entry(k).or_insert(0u64) += c;
    }
  }
  run.set("spaceCD_states", json!(total_c));
  run.set("reference_error_classes_seen", json!(errk));
  run.states = total_a + total_b + total_c;
  run.transitions = total_a + total_b + total_c; // every state is reached by exactly one generator edge from its predecessor
  run.traces = run.states;
  run.evaluations = run.states;
  for s in ["1903e8", "9f0102ff", "5f4101420203ff", "f97e00", "c1fb41d452d9ec200000", "a201020304", "f8ff", "3bffffffffffffffff"] {
    let b = unhex(s);
    run.sample(json!({"hex": s, "reference": format!("{:?}", ref_decode(&b).map(|x| rv_to_diag(&x.0))), "impl": format!("{:?}", decode_cbor(&b).map(|v| rv_to_diag(&impl_to_rv(&v))).map_err(|e| e.to_string()))}));
  }
  run.assumptions = vec![
    "the reference decoder is my reading of RFC 8949 section 3 and Appendix C (no network access); it is self-checked on every generated encoding".into(),
    "inputs whose heads announce lengths > 2^20 are not run in-process here; they are C05's hostile-length family (isolated workers)".into(),
  ];
  run.finish()
}

pub fn replay(case: &serde_json::Value) -> Option<Viol> {
  check_bytes(&unhex(case["hex"].as_str().unwrap_or("")))
}
