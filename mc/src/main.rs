fn main(){ println!("{:?}", cddl::cddl_from_str("a = int", false).is_ok()); }
