mod c01;
mod c03;
mod c02;
mod c04;
mod c05;
mod c06;
mod c07;
mod syn;
mod c08;
mod c09;
mod c10;
mod c12;
mod c13;
mod c14;
mod c15;
mod c16;
mod c17;
mod c18;
mod c19;
mod c20;
mod c11;
mod cborref;
mod core;
mod docs;
mod patterns;
mod refmodel;
mod shape;
mod space;
mod terms;
mod verdicts;
use crate::core::*;

fn main() {
  let args: Vec<String> = std::env::args().collect();
  if args.len() < 2 {
    eprintln!("usage: mc <ID> <quick|thorough> | mc replay <file>");
    std::process::exit(2);
  }
  if args[1] == "eval" {
    // mc eval <schema-text> <json-text>: both validators on one state (triage aid)
    let schema = args[2].replace("\\n", "\n");
    println!("json: {}", verdicts::json_str(&schema, &args[3]).short());
    if let Err(e) = cddl::validate_json_from_str(&schema, &args[3], None) {
      println!("  detail: {e}");
    }
    if let Ok(v) = serde_json::from_str::<serde_json::Value>(&args[3]) {
      let mut b = vec![];
      ciborium::ser::into_writer(&v, &mut b).unwrap();
      println!("cbor({}): {}", hex(&b), verdicts::cbor_slice(&schema, &b).short());
    }
    return;
  }
  if args[1] == "c05-worker" {
    return c05::worker_main(&args[2..]);
  }
  if args[1] == "c14-hist" {
    return c14::hist_main(&args[2]);
  }
  if args[1] == "c14-conc" {
    return c14::conc_main(&args[2]);
  }
  if args[1] == "cbor" {
    // mc cbor <schema> <hex>: CBOR validator on raw bytes (triage aid)
    let schema = args[2].replace("\\n", "\n");
    let b = unhex(&args[3]);
    println!("decode: {:?}", cddl::validator::cbor_value::decode_cbor(&b).map(|v| format!("{:?}", v)).map_err(|e| format!("{e:?}")));
    println!("cbor: {}", verdicts::cbor_slice(&schema, &b).short());
    if let Err(e) = cddl::validate_cbor_from_slice(&schema, &b, None) {
      println!("  detail: {e}");
    }
    return;
  }
  if args[1] == "c03-derives" {
    // mc c03-derives <text>: reference recogniser vs parser on one text (triage aid)
    let t = args[2].replace("\\n", "\n").replace("\\t", "\t");
    println!("derivable: {}", c03::grammar().derives(&t));
    println!("parser: {:?}", cddl::cddl_from_str(&t, false).map(|_| "accepted").map_err(|e| e.to_string()));
    return;
  }
  if args[1] == "c17-setup" {
    std::process::exit(c17::setup());
  }
  if args[1] == "c17-hashes" {
    c17::hashes(if args.get(2).map(|s| s.as_str()) == Some("thorough") { Tier::Thorough } else { Tier::Quick });
    return;
  }
  if args[1] == "c17-show" {
    // mc c17-show <cddl-text>: the code cddl-derive generates (triage aid)
    match c17::generate(&args[2].replace("\\n", "\n")) {
      Ok(s) => println!("{s}"),
      Err(e) => println!("ERROR {e}"),
    }
    return;
  }
  if args[1] == "fmt" {
    // mc fmt <cddl-text>: parse, shape, format, re-parse (triage aid)
    let text = args[2].replace("\\n", "\n");
    match cddl::cddl_from_str(&text, false) {
      Err(e) => println!("parse error: {e}"),
      Ok(a) => {
        let n = shape::cddl(&a);
        println!("shape1: {}", n.shape());
        let s1 = a.to_string();
        println!("formatted: {:?}", s1);
        match cddl::cddl_from_str(&s1, false) {
          Err(e) => println!("re-parse error: {e}"),
          Ok(b) => {
            println!("shape2: {}", shape::cddl(&b).shape());
            println!("formatted2: {:?}", b.to_string());
          }
        }
        for (k, f, c) in n.all_comments() {
          println!("comment {k}.{f}: {:?}", c);
        }
      }
    }
    return;
  }
  if args[1] == "replay" {
    let s = std::fs::read_to_string(&args[2]).expect("read replay file");
    let j: serde_json::Value = serde_json::from_str(&s).expect("json");
    let prop = j["property"].as_str().unwrap_or("");
    quiet_panics();
    let r = match prop {
      "C11" => c11::replay(&j["case"]),
      "C01" => c01::replay(&j["case"]),
      "C14" => c14::replay(&j["case"], j["kind"].as_str().unwrap_or("")),
      "C06" => c06::replay(&j["case"]),
      "C20" => c20::replay(&j["case"]),
      "C16" => c16::replay(&j["case"]),
      "C03" => c03::replay(&j["case"]),
      "C17" => c17::replay(&j["case"]),
      "C18" => c18::replay(&j["case"]),
      "C19" => c19::replay(&j["case"]),
      "C05" => c05::replay(&j["case"]),
      "C08" => c08::replay(&j["case"]),
      "C02" => c02::replay(&j["case"], j["kind"].as_str().unwrap_or("")),
      "C04" => c04::replay(&j["case"]),
      "C09" => c09::replay(&j["case"]),
      "C13" => c13::replay(&j["case"]),
      "C07" => c07::replay(&j["case"]),
      "C15" => c15::replay(&j["case"]),
      "C12" => c12::replay(&j["case"], j["kind"].as_str().unwrap_or("")),
      "C10" => c10::replay(&j["case"], j["kind"].as_str().unwrap_or("")),
      _ => {
        eprintln!("ENGINE-ERROR no replay for {prop}");
        std::process::exit(2)
      }
    };
    match r {
      Some(v) => {
        println!("REPRODUCED property={} kind={} observed={} expected={}", prop, v.kind, v.observed, v.expected);
        std::process::exit(1)
      }
      None => {
        println!("NOT-REPRODUCED property={prop}");
        std::process::exit(0)
      }
    }
  }
  let tier = match std::env::var("VERIF_TIER").ok().as_deref().or(args.get(2).map(|s| s.as_str())) {
    Some("thorough") => Tier::Thorough,
    _ => Tier::Quick,
  };
  let code = match args[1].as_str() {
    "C11" => c11::run(tier),
    "C01" => c01::run(tier),
    "C10" => c10::run(tier),
    "C06" => c06::run(tier),
    "C20" => c20::run(tier),
    "C16" => c16::run(tier),
    "C03" => c03::run(tier),
    "C17" => c17::run(tier),
    "C18" => c18::run(tier),
    "C19" => c19::run(tier),
    "C05" => c05::run(tier),
    "C08" => c08::run(tier),
    "C02" => c02::run(tier),
    "C04" => c04::run(tier),
    "C09" => c09::run(tier),
    "C13" => c13::run(tier),
    "C07" => c07::run(tier),
    "C15" => c15::run(tier),
    "C12" => c12::run(tier),
    "C14" => c14::run(tier),
    x => {
      eprintln!("ENGINE-ERROR unknown property {x}");
      2
    }
  };
  std::process::exit(code);
}
