//! Reference model R: a declarative matcher for the core CDDL fragment, written
//! from RFC 8610 sections 2-3, Appendix A (PEG reading of array groups, as the crate
//! documents it) and Appendix D (prelude). Three-valued: constructs whose meaning is
//! open (or outside the fragment) raise `DontCare`, which makes the whole verdict
//! DontCare (never a violation).
use crate::cborref::RV;
use crate::terms::*;
use std::collections::BTreeMap;

#[derive(Clone, Copy, PartialEq, Eq, Debug)]
pub enum Tri {
  Acc,
  Rej,
  DC,
}

#[derive(Debug, Clone)]
pub struct DontCare(pub &'static str);
type R<T> = Result<T, DontCare>;

pub struct Model<'a> {
  pub schema: &'a Schema,
  trules: BTreeMap<&'a str, Vec<&'a RuleT>>,
  grules: BTreeMap<&'a str, Vec<&'a RuleT>>,
}

type Env = Vec<(String, T1)>;

pub const PRELUDE: &[&str] = &[
  "any", "uint", "nint", "int", "bstr", "bytes", "tstr", "text", "tdate", "time", "number", "biguint", "bignint", "bigint", "integer",
  "unsigned", "decfrac", "bigfloat", "eb64url", "eb64legacy", "eb16", "encoded-cbor", "uri", "b64url", "b64legacy", "regexp",
  "mime-message", "cbor-any", "float16", "float32", "float64", "float16-32", "float32-64", "float", "false", "true", "bool", "nil",
  "null", "undefined",
];

fn is_int(v: &RV) -> bool {
  matches!(v, RV::Uint(_) | RV::Nint(_))
}
pub fn int_val(v: &RV) -> Option<i128> {
  match v {
    RV::Uint(n) => Some(*n as i128),
    RV::Nint(n) => Some(-1 - *n as i128),
    _ => None,
  }
}

impl<'a> Model<'a> {
  pub fn new(schema: &'a Schema) -> Model<'a> {
    let mut trules: BTreeMap<&str, Vec<&RuleT>> = BTreeMap::new();
    let mut grules: BTreeMap<&str, Vec<&RuleT>> = BTreeMap::new();
    for r in &schema.0 {
      match r.body {
        Body::Type(_) => trules.entry(r.name.as_str()).or_default().push(r),
        Body::Group(_) => grules.entry(r.name.as_str()).or_default().push(r),
      }
    }
    Model { schema, trules, grules }
  }

  /// verdict of the first type rule on `v`
  pub fn verdict(&self, v: &RV) -> Tri {
    let root = match self.schema.0.iter().find(|r| matches!(r.body, Body::Type(_)) && r.params.is_empty()) {
      Some(r) => r,
      None => return Tri::DC,
    };
    // the root rule's "/=" extensions belong to it
    let mut st = St { stack: vec![], fuel: 200_000 };
    match self.m_rule_type(&root.name, &[], v, &vec![], &mut st) {
      Ok(true) => Tri::Acc,
      Ok(false) => Tri::Rej,
      Err(_) => Tri::DC,
    }
  }
  pub fn verdict_why(&self, v: &RV) -> (Tri, &'static str) {
    let root = match self.schema.0.iter().find(|r| matches!(r.body, Body::Type(_)) && r.params.is_empty()) {
      Some(r) => r,
      None => return (Tri::DC, "no root"),
    };
    let mut st = St { stack: vec![], fuel: 200_000 };
    match self.m_rule_type(&root.name, &[], v, &vec![], &mut st) {
      Ok(true) => (Tri::Acc, ""),
      Ok(false) => (Tri::Rej, ""),
      Err(e) => (Tri::DC, e.0),
    }
  }

  fn subst_t2(&self, t: &T2, env: &Env) -> T2 {
    if env.is_empty() {
      return t.clone();
    }
    match t {
      T2::Name(n, a) if a.is_empty() => {
        if let Some((_, x)) = env.iter().find(|(p, _)| p == n) {
          if x.op.is_none() {
            x.t2.clone()
          } else {
            T2::Paren(Ty(vec![x.clone()]))
          }
        } else {
          t.clone()
        }
      }
      T2::Name(n, a) => T2::Name(n.clone(), a.iter().map(|x| self.subst_t1(x, env)).collect()),
      T2::Paren(t) => T2::Paren(self.subst_ty(t, env)),
      T2::Map(g) => T2::Map(self.subst_grp(g, env)),
      T2::Arr(g) => T2::Arr(self.subst_grp(g, env)),
      T2::Unwrap(n, a) => T2::Unwrap(n.clone(), a.iter().map(|x| self.subst_t1(x, env)).collect()),
      T2::EnumInline(g) => T2::EnumInline(self.subst_grp(g, env)),
      T2::EnumRef(n, a) => T2::EnumRef(n.clone(), a.iter().map(|x| self.subst_t1(x, env)).collect()),
      T2::Tag(n, t) => T2::Tag(n.clone(), self.subst_ty(t, env)),
      _ => t.clone(),
    }
  }
  fn subst_t1(&self, t: &T1, env: &Env) -> T1 {
    T1 { t2: self.subst_t2(&t.t2, env), op: t.op.as_ref().map(|(o, a)| (o.clone(), self.subst_t2(a, env))) }
  }
  fn subst_ty(&self, t: &Ty, env: &Env) -> Ty {
    Ty(t.0.iter().map(|x| self.subst_t1(x, env)).collect())
  }
  fn subst_entry(&self, e: &Entry, env: &Env) -> Entry {
    Entry {
      occ: e.occ.clone(),
      kind: match &e.kind {
        EK::Val(k, t) => EK::Val(
          k.as_ref().map(|k| match k {
            Key::Arrow(t, c) => Key::Arrow(self.subst_t1(t, env), *c),
            k => k.clone(),
          }),
          self.subst_ty(t, env),
        ),
        EK::Ref(n, a) => EK::Ref(n.clone(), a.iter().map(|x| self.subst_t1(x, env)).collect()),
        EK::Inline(g) => EK::Inline(self.subst_grp(g, env)),
      },
    }
  }
  fn subst_grp(&self, g: &Grp, env: &Env) -> Grp {
    Grp(g.0.iter().map(|c| c.iter().map(|e| self.subst_entry(e, env)).collect()).collect())
  }

  fn m_rule_type(&self, name: &str, args: &[T1], v: &RV, env: &Env, st: &mut St) -> R<bool> {
    let rules = match self.trules.get(name) {
      Some(r) => r,
      None => {
        if name.starts_with('$') {
          return Ok(false); // unplugged type socket: empty choice
        }
        if self.grules.contains_key(name) {
          return Err(DontCare("group rule used as type"));
        }
        return Err(DontCare("undefined name"));
      }
    };
    // non-progress recursion guard
    let key = (name.to_string(), v as *const RV as usize, args.len());
    if st.stack.contains(&key) {
      return Err(DontCare("recursion without progress"));
    }
    st.stack.push(key);
    let cargs: Vec<T1> = args.iter().map(|a| self.subst_t1(a, env)).collect();
    let mut res = Ok(false);
    for r in rules {
      if r.params.len() != cargs.len() {
        res = Err(DontCare("generic arity mismatch"));
        break;
      }
      let nenv: Env = r.params.iter().cloned().zip(cargs.iter().cloned()).collect();
      if let Body::Type(t) = &r.body {
        match self.m_ty(t, v, &nenv, st) {
          Ok(true) => {
            res = Ok(true);
            break;
          }
          Ok(false) => {}
          Err(e) => {
            res = Err(e);
            break;
          }
        }
      }
    }
    st.stack.pop();
    res
  }

  pub fn m_ty(&self, t: &Ty, v: &RV, env: &Env, st: &mut St) -> R<bool> {
    for x in &t.0 {
      if self.m_t1(x, v, env, st)? {
        return Ok(true);
      }
    }
    Ok(false)
  }

  /// resolve a type2 to a literal (directly, through parentheses or through a
  /// non-generic rule that is a single literal)
  fn as_lit(&self, t: &T2, env: &Env, depth: usize) -> Option<Lit> {
    if depth > 8 {
      return None;
    }
    match t {
      T2::Lit(l) => Some(l.clone()),
      T2::Paren(ty) if ty.0.len() == 1 && ty.0[0].op.is_none() => self.as_lit(&ty.0[0].t2, env, depth + 1),
      T2::Name(n, a) if a.is_empty() => {
        if let Some((_, x)) = env.iter().find(|(p, _)| p == n) {
          if x.op.is_none() {
            return self.as_lit(&x.t2, &vec![], depth + 1);
          }
          return None;
        }
        let rs = self.trules.get(n.as_str())?;
        if rs.len() != 1 || !rs[0].params.is_empty() {
          return None;
        }
        if let Body::Type(ty) = &rs[0].body {
          if ty.0.len() == 1 && ty.0[0].op.is_none() {
            return self.as_lit(&ty.0[0].t2, &vec![], depth + 1);
          }
        }
        None
      }
      _ => None,
    }
  }

  fn m_t1(&self, t: &T1, v: &RV, env: &Env, st: &mut St) -> R<bool> {
    st.tick()?;
    match &t.op {
      None => self.m_t2(&t.t2, v, env, st),
      Some((Op::RangeIncl, hi)) | Some((Op::RangeExcl, hi)) => {
        let incl = matches!(t.op, Some((Op::RangeIncl, _)));
        let lo = self.as_lit(&t.t2, env, 0).ok_or(DontCare("range bound not a literal"))?;
        let hi = self.as_lit(hi, env, 0).ok_or(DontCare("range bound not a literal"))?;
        match (lo, hi) {
          (Lit::Int(a), Lit::Int(b)) => Ok(match int_val(v) {
            Some(n) => n >= a && (if incl { n <= b } else { n < b }),
            None => false,
          }),
          (Lit::Float(a), Lit::Float(b)) => Ok(match v {
            RV::Float(f) => {
              if f.is_nan() {
                return Err(DontCare("NaN in range"));
              }
              *f >= a && (if incl { *f <= b } else { *f < b })
            }
            _ => false,
          }),
          _ => Err(DontCare("mixed or non-numeric range bounds")),
        }
      }
      Some((Op::Ctl(op), arg)) => {
        match *op {
          "and" | "within" => Ok(self.m_t2(&t.t2, v, env, st)? && self.m_t2(arg, v, env, st)?),
          "default" => self.m_t2(&t.t2, v, env, st),
          "size" => {
            if !self.m_t2(&t.t2, v, env, st)? {
              return Ok(false);
            }
            // argument: uint literal or (parenthesised) uint range
            let (lo, hi) = match arg {
              T2::Paren(ty) if ty.0.len() == 1 && matches!(ty.0[0].op, Some((Op::RangeIncl, _)) | Some((Op::RangeExcl, _))) => {
                let r = &ty.0[0];
                let lo = self.as_lit(&r.t2, env, 0);
                let hi = self.as_lit(&r.op.as_ref().unwrap().1, env, 0);
                match (lo, hi) {
                  (Some(Lit::Int(a)), Some(Lit::Int(b))) if a >= 0 => {
                    (a, if matches!(r.op, Some((Op::RangeIncl, _))) { b } else { b - 1 })
                  }
                  _ => return Err(DontCare(".size argument")),
                }
              }
              a => match self.as_lit(a, env, 0) {
                Some(Lit::Int(n)) if n >= 0 => (n, n),
                _ => return Err(DontCare(".size argument")),
              },
            };
            match v {
              RV::Text(s) => Ok((s.len() as i128) >= lo && (s.len() as i128) <= hi),
              RV::Bytes(b) => Ok((b.len() as i128) >= lo && (b.len() as i128) <= hi),
              RV::Uint(n) => {
                if lo != hi {
                  return Err(DontCare(".size range on integer"));
                }
                if hi >= 16 {
                  return Ok(true);
                }
                Ok((*n as u128) < 256u128.pow(hi as u32))
              }
              _ => Err(DontCare(".size on this kind of value")),
            }
          }
          "eq" | "ne" | "lt" | "le" | "gt" | "ge" => {
            if !self.m_t2(&t.t2, v, env, st)? {
              return Ok(false);
            }
            let a = self.as_lit(arg, env, 0).ok_or(DontCare("comparison argument not a literal"))?;
            let ord: Option<std::cmp::Ordering> = match (&a, v) {
              (Lit::Int(a), _) if is_int(v) => Some(int_val(v).unwrap().cmp(a)),
              (Lit::Float(a), RV::Float(f)) => {
                if f.is_nan() {
                  return Err(DontCare("NaN comparison"));
                }
                f.partial_cmp(a)
              }
              (Lit::Text(a), RV::Text(s)) if matches!(*op, "eq" | "ne") => Some(s.as_str().cmp(a.as_str())),
              (Lit::BytesUtf8(_), _) | (Lit::BytesHex(_), _) => return Err(DontCare("comparison on bytes")),
              // value of a different kind than the argument
              (Lit::Int(_), RV::Float(_)) | (Lit::Float(_), RV::Uint(_)) | (Lit::Float(_), RV::Nint(_)) => {
                return Err(DontCare("mixed int/float comparison"))
              }
              _ => {
                // kinds differ (e.g. text target vs numeric argument): .ne holds, others do not... open
                return Err(DontCare("comparison across kinds"));
              }
            };
            let o = ord.ok_or(DontCare("unordered"))?;
            use std::cmp::Ordering::*;
            Ok(match *op {
              "eq" => o == Equal,
              "ne" => o != Equal,
              "lt" => o == Less,
              "le" => o != Greater,
              "gt" => o == Greater,
              _ => o != Less,
            })
          }
          _ => Err(DontCare("control operator outside the modelled fragment")),
        }
      }
    }
  }

  fn prelude(&self, n: &str, v: &RV) -> R<bool> {
    Ok(match n {
      "any" => true,
      "uint" => matches!(v, RV::Uint(_)),
      // unsigned = uint / biguint, biguint = #6.2(bstr)
      "unsigned" => matches!(v, RV::Uint(_)) || matches!(v, RV::Tag(2, x) if matches!(**x, RV::Bytes(_))),
      "integer" => is_int(v) || matches!(v, RV::Tag(2 | 3, x) if matches!(**x, RV::Bytes(_))),
      "biguint" => matches!(v, RV::Tag(2, x) if matches!(**x, RV::Bytes(_))),
      "bignint" => matches!(v, RV::Tag(3, x) if matches!(**x, RV::Bytes(_))),
      "bigint" => matches!(v, RV::Tag(2 | 3, x) if matches!(**x, RV::Bytes(_))),
      "nint" => matches!(v, RV::Nint(_)),
      "int" => is_int(v),
      "bstr" | "bytes" => matches!(v, RV::Bytes(_)),
      "tstr" | "text" => matches!(v, RV::Text(_)),
      "float" => matches!(v, RV::Float(_)),
      "number" => is_int(v) || matches!(v, RV::Float(_)),
      "false" => *v == RV::Simple(20),
      "true" => *v == RV::Simple(21),
      "bool" => matches!(v, RV::Simple(20) | RV::Simple(21)),
      "nil" | "null" => *v == RV::Simple(22),
      "undefined" => *v == RV::Simple(23),
      "float16" | "float32" | "float64" | "float16-32" | "float32-64" => {
        if matches!(v, RV::Float(_)) {
          return Err(DontCare("float width types depend on the encoding"));
        }
        false
      }
      _ => return Err(DontCare("tag-based / semantic prelude type")),
    })
  }

  fn m_t2(&self, t: &T2, v: &RV, env: &Env, st: &mut St) -> R<bool> {
    st.tick()?;
    match t {
      T2::Lit(l) => Ok(match (l, v) {
        (Lit::Int(n), _) if is_int(v) => int_val(v) == Some(*n),
        (Lit::Float(f), RV::Float(g)) => {
          if g.is_nan() || f.is_nan() || (*g == 0.0 && *f == 0.0 && g.to_bits() != f.to_bits()) {
            return Err(DontCare("NaN / signed zero equality"));
          }
          f == g
        }
        (Lit::Text(s), RV::Text(x)) => s == x,
        (Lit::BytesUtf8(s), RV::Bytes(b)) => s.as_bytes() == &b[..],
        (Lit::BytesHex(h), RV::Bytes(b)) => h == b,
        _ => false,
      }),
      T2::Name(n, a) => {
        if a.is_empty() {
          if let Some((_, x)) = env.iter().find(|(p, _)| p == n) {
            let x = x.clone();
            return self.m_t1(&x, v, &vec![], st);
          }
        }
        if self.trules.contains_key(n.as_str()) || self.grules.contains_key(n.as_str()) {
          return self.m_rule_type(n, a, v, env, st);
        }
        if a.is_empty() && PRELUDE.contains(&n.as_str()) {
          return self.prelude(n, v);
        }
        self.m_rule_type(n, a, v, env, st)
      }
      T2::Paren(ty) => self.m_ty(ty, v, env, st),
      T2::Arr(g) => match v {
        RV::Array(el) => Ok(self.seq_group(g, el, 0, env, st)? == Some(el.len())),
        _ => Ok(false),
      },
      T2::Map(g) => match v {
        RV::Map(pairs) => {
          if pairs.len() > 12 {
            return Err(DontCare("map too large for the brute-force model"));
          }
          let full: u32 = (1u32 << pairs.len()) - 1;
          let outs = self.map_group(g, pairs, full, env, st)?;
          Ok(outs.contains(&0))
        }
        _ => Ok(false),
      },
      T2::Tag(n, ty) => match v {
        RV::Tag(t, inner) => {
          if let TagNum::Lit(k) = n {
            if k != t {
              return Ok(false);
            }
          }
          self.m_ty(ty, inner, env, st)
        }
        _ => Ok(false),
      },
      T2::Major(m, None) => Ok(match (m, v) {
        (0, RV::Uint(_)) | (1, RV::Nint(_)) | (2, RV::Bytes(_)) | (3, RV::Text(_)) | (4, RV::Array(_)) | (5, RV::Map(_)) | (6, RV::Tag(..)) => true,
        (7, RV::Simple(_)) | (7, RV::Float(_)) => true,
        _ => false,
      }),
      T2::Major(7, Some(n)) => match n {
        0..=23 | 32..=255 => Ok(*v == RV::Simple(*n as u8)),
        25..=27 => {
          if matches!(v, RV::Float(_)) {
            Err(DontCare("float width types depend on the encoding"))
          } else {
            Ok(false)
          }
        }
        _ => Err(DontCare("#7.n outside simple/float")),
      },
      T2::Major(_, Some(_)) => Err(DontCare("#n.m for n<7: meaning open")),
      T2::AnyHash => Ok(true),
      T2::EnumInline(g) => self.enum_group(g, v, env, st),
      T2::EnumRef(n, a) => {
        if !a.is_empty() {
          return Err(DontCare("generic group in &"));
        }
        let rs = self.grules.get(n.as_str()).ok_or(DontCare("& of non-group"))?;
        for r in rs {
          if !r.params.is_empty() {
            return Err(DontCare("generic group in &"));
          }
          if let Body::Group(e) = &r.body {
            if self.enum_entry(e, v, env, st)? {
              return Ok(true);
            }
          }
        }
        Ok(false)
      }
      T2::Unwrap(..) => Err(DontCare("unwrap as a type")),
    }
  }

  fn enum_group(&self, g: &Grp, v: &RV, env: &Env, st: &mut St) -> R<bool> {
    for c in &g.0 {
      for e in c {
        if self.enum_entry(e, v, env, st)? {
          return Ok(true);
        }
      }
    }
    Ok(false)
  }
  fn enum_entry(&self, e: &Entry, v: &RV, env: &Env, st: &mut St) -> R<bool> {
    match &e.kind {
      EK::Val(_, ty) => self.m_ty(ty, v, env, st),
      EK::Inline(g) => self.enum_group(g, v, env, st),
      EK::Ref(..) => Err(DontCare("nested group reference in &")),
    }
  }

  // ------------------------------------------------------------ arrays (PEG)

  fn seq_group(&self, g: &Grp, el: &[RV], cur: usize, env: &Env, st: &mut St) -> R<Option<usize>> {
    for c in &g.0 {
      if let Some(e) = self.seq_choice(c, el, cur, env, st)? {
        return Ok(Some(e));
      }
    }
    Ok(None)
  }
  fn seq_choice(&self, c: &[Entry], el: &[RV], mut cur: usize, env: &Env, st: &mut St) -> R<Option<usize>> {
    for e in c {
      match self.seq_entry(e, el, cur, env, st)? {
        Some(n) => cur = n,
        None => return Ok(None),
      }
    }
    Ok(Some(cur))
  }
  fn seq_entry(&self, e: &Entry, el: &[RV], cursor: usize, env: &Env, st: &mut St) -> R<Option<usize>> {
    let (min, max) = e.occ.bounds();
    let mut cur = cursor;
    let mut count = 0u64;
    while max.map_or(true, |m| count < m) {
      st.tick()?;
      match self.seq_once(e, el, cur, env, st)? {
        Some(n) => {
          count += 1;
          if n == cur {
            count = count.max(min);
            break;
          }
          cur = n;
        }
        None => break,
      }
    }
    Ok(if count >= min { Some(cur) } else { None })
  }
  fn seq_once(&self, e: &Entry, el: &[RV], cur: usize, env: &Env, st: &mut St) -> R<Option<usize>> {
    match &e.kind {
      EK::Inline(g) => self.seq_group(g, el, cur, env, st),
      EK::Ref(n, a) => {
        if let Some((_, x)) = env.iter().find(|(p, _)| p == n) {
          // generic parameter in entry position: a type
          if cur < el.len() && self.m_t1(&x.clone(), &el[cur], &vec![], st)? {
            return Ok(Some(cur + 1));
          }
          return Ok(None);
        }
        if let Some(rs) = self.grules.get(n.as_str()) {
          let key = (n.clone(), el.as_ptr() as usize + cur, 7777);
          if st.stack.contains(&key) {
            return Err(DontCare("group recursion without progress"));
          }
          st.stack.push(key);
          let cargs: Vec<T1> = a.iter().map(|x| self.subst_t1(x, env)).collect();
          let mut res = Ok(None);
          for r in rs {
            if r.params.len() != cargs.len() {
              res = Err(DontCare("generic arity mismatch"));
              break;
            }
            let nenv: Env = r.params.iter().cloned().zip(cargs.iter().cloned()).collect();
            if let Body::Group(b) = &r.body {
              match self.seq_entry(b, el, cur, &nenv, st) {
                Ok(Some(x)) => {
                  res = Ok(Some(x));
                  break;
                }
                Ok(None) => {}
                Err(e) => {
                  res = Err(e);
                  break;
                }
              }
            }
          }
          st.stack.pop();
          return res;
        }
        if n.starts_with("$$") {
          return Ok(None); // unplugged group socket: empty choice
        }
        // a bare name in entry position that is a type
        if cur < el.len() && self.m_t2(&T2::Name(n.clone(), a.clone()), &el[cur], env, st)? {
          Ok(Some(cur + 1))
        } else {
          Ok(None)
        }
      }
      EK::Val(_, ty) => {
        if ty.0.iter().any(|x| matches!(x.t2, T2::Unwrap(..))) {
          return Err(DontCare("unwrap inside array"));
        }
        // a single bare name that denotes a group rule is a group reference
        if ty.0.len() == 1 && ty.0[0].op.is_none() {
          if let T2::Name(n, a) = &ty.0[0].t2 {
            if !env.iter().any(|(p, _)| p == n) && !self.trules.contains_key(n.as_str()) && self.grules.contains_key(n.as_str()) {
              let r = Entry { occ: Occ::One, kind: EK::Ref(n.clone(), a.clone()) };
              return self.seq_once(&r, el, cur, env, st);
            }
          }
        }
        if cur < el.len() && self.m_ty(ty, &el[cur], env, st)? {
          Ok(Some(cur + 1))
        } else {
          Ok(None)
        }
      }
    }
  }

  // ------------------------------------------------------------ maps

  /// all possible sets of pairs left over after `g` consumed some of `avail`
  fn map_group(&self, g: &Grp, pairs: &[(RV, RV)], avail: u32, env: &Env, st: &mut St) -> R<Vec<u32>> {
    let mut out = vec![];
    for c in &g.0 {
      let mut states = vec![avail];
      for e in c {
        let mut next = vec![];
        for s in states {
          for s2 in self.map_entry(e, pairs, s, env, st)? {
            if !next.contains(&s2) {
              next.push(s2);
            }
          }
        }
        states = next;
        if states.is_empty() {
          break;
        }
      }
      for s in states {
        if !out.contains(&s) {
          out.push(s);
        }
      }
    }
    Ok(out)
  }

  fn key_matches(&self, k: &Key, kv: &RV, env: &Env, st: &mut St) -> R<bool> {
    match k {
      Key::Bare(s) => Ok(matches!(kv, RV::Text(x) if x == s)),
      Key::LitColon(l) => self.m_t2(&T2::Lit(l.clone()), kv, env, st),
      Key::Arrow(t, _) => self.m_t1(t, kv, env, st),
    }
  }

  fn map_entry(&self, e: &Entry, pairs: &[(RV, RV)], avail: u32, env: &Env, st: &mut St) -> R<Vec<u32>> {
    let (min, max) = e.occ.bounds();
    let mut result: Vec<u32> = vec![];
    let mut level = vec![avail];
    let mut j = 0u64;
    loop {
      st.tick()?;
      if j >= min {
        for s in &level {
          if !result.contains(s) {
            result.push(*s);
          }
        }
      }
      if max.map_or(false, |m| j >= m) || level.is_empty() {
        break;
      }
      let mut next = vec![];
      let mut zero_width = false;
      for s in &level {
        for s2 in self.map_once(e, pairs, *s, env, st)? {
          if s2 == *s {
            zero_width = true;
          } else if !next.contains(&s2) {
            next.push(s2);
          }
        }
      }
      if zero_width {
        // a zero-width iteration satisfies any remaining minimum
        for s in &level {
          if !result.contains(s) {
            result.push(*s);
          }
        }
      }
      level = next;
      j += 1;
      if j > 64 {
        break;
      }
    }
    // cut: pairs whose key matches a cut key may not be matched by later entries, so
    // any outcome that still holds such a pair can never be completed
    if let EK::Val(Some(k), _) = &e.kind {
      let cut = match k {
        Key::Bare(_) | Key::LitColon(_) => true,
        Key::Arrow(_, c) => *c,
      };
      if cut {
        let mut kept = vec![];
        for s in result {
          let mut dead = false;
          for (i, p) in pairs.iter().enumerate() {
            if s & (1 << i) != 0 && self.key_matches(k, &p.0, env, st)? {
              dead = true;
              break;
            }
          }
          if !dead {
            kept.push(s);
          }
        }
        result = kept;
      }
    }
    Ok(result)
  }

  fn map_once(&self, e: &Entry, pairs: &[(RV, RV)], avail: u32, env: &Env, st: &mut St) -> R<Vec<u32>> {
    match &e.kind {
      EK::Inline(g) => self.map_group(g, pairs, avail, env, st),
      EK::Val(None, ty) => {
        // keyless entry in a map: a bare group name is a group reference, anything else is open
        if ty.0.len() == 1 && ty.0[0].op.is_none() {
          if let T2::Name(n, a) = &ty.0[0].t2 {
            if !self.trules.contains_key(n.as_str()) && self.grules.contains_key(n.as_str()) {
              let r = Entry { occ: Occ::One, kind: EK::Ref(n.clone(), a.clone()) };
              return self.map_once(&r, pairs, avail, env, st);
            }
          }
        }
        Err(DontCare("keyless entry in map"))
      }
      EK::Val(Some(k), ty) => {
        let mut out = vec![];
        for (i, p) in pairs.iter().enumerate() {
          if avail & (1 << i) != 0 && self.key_matches(k, &p.0, env, st)? && self.m_ty(ty, &p.1, env, st)? {
            out.push(avail & !(1 << i));
          }
        }
        Ok(out)
      }
      EK::Ref(n, a) => {
        if let Some(rs) = self.grules.get(n.as_str()) {
          let key = (n.clone(), avail as usize, 8888);
          if st.stack.contains(&key) {
            return Err(DontCare("group recursion without progress"));
          }
          st.stack.push(key);
          let cargs: Vec<T1> = a.iter().map(|x| self.subst_t1(x, env)).collect();
          let mut out = vec![];
          let mut err = None;
          for r in rs {
            if r.params.len() != cargs.len() {
              err = Some(DontCare("generic arity mismatch"));
              break;
            }
            let nenv: Env = r.params.iter().cloned().zip(cargs.iter().cloned()).collect();
            if let Body::Group(b) = &r.body {
              match self.map_entry(b, pairs, avail, &nenv, st) {
                Ok(v) => {
                  for s in v {
                    if !out.contains(&s) {
                      out.push(s);
                    }
                  }
                }
                Err(e) => {
                  err = Some(e);
                  break;
                }
              }
            }
          }
          st.stack.pop();
          if let Some(e) = err {
            return Err(e);
          }
          return Ok(out);
        }
        if n.starts_with("$$") {
          return Ok(vec![]);
        }
        Err(DontCare("keyless type entry in map"))
      }
    }
  }
}

pub struct St {
  stack: Vec<(String, usize, usize)>,
  fuel: u64,
}
impl St {
  fn tick(&mut self) -> R<()> {
    if self.fuel == 0 {
      return Err(DontCare("model fuel exhausted"));
    }
    self.fuel -= 1;
    Ok(())
  }
}
