//! C14 — validation failures are reported faithfully and deterministically.
//! States = (schema, document) over the C01 schema space x JSON universe. In every state:
//!  (1) Err(Validation(list)) has a non-empty list;
//!  (2) every JSON error location is "" or a slash path that resolves in the document;
//!  (3) histories: the call is made again immediately, and again after every other
//!      document of the universe was validated (reverse sweep), and once through the
//!      string entry point; verdict and ordered (location, reason) list must be equal;
//!  (4) malformed schema / malformed document / non-conforming document are reported
//!      through different error kinds (both validators).
use crate::cborref::{rv_to_impl, RV};
use crate::core::*;
use crate::docs::*;
use crate::space::*;
use crate::terms::*;
use cddl::validator::{cbor::CBORValidator, json::JSONValidator, Validator};
use serde_json::json;
use std::collections::BTreeMap;

#[derive(Clone, PartialEq, Debug)]
enum Rep {
  Ok,
  Val(Vec<(String, String)>),
  Other(String),
  Panic(String),
}
impl Rep {
  fn short(&self) -> String {
    match self {
      Rep::Ok => "Ok".into(),
      Rep::Val(l) => trunc(&format!("Err(Validation {:?})", l)),
      Rep::Other(s) => format!("Err(other {})", trunc(s)),
      Rep::Panic(s) => format!("PANIC {}", trunc(s)),
    }
  }
}

fn jrep(ast: &cddl::ast::CDDL, d: &serde_json::Value) -> Rep {
  match catch(|| {
    let mut jv = JSONValidator::new(ast, d.clone(), None);
    jv.validate()
  }) {
    Ok(Ok(())) => Rep::Ok,
    Ok(Err(cddl::validator::json::Error::Validation(l))) => {
      Rep::Val(l.into_iter().map(|e| (e.json_location, e.reason)).collect())
    }
    Ok(Err(e)) => Rep::Other(format!("{e}")),
    Err(p) => Rep::Panic(p),
  }
}
fn crep(ast: &cddl::ast::CDDL, d: &RV) -> Rep {
  match catch(|| {
    let mut cv = CBORValidator::new(ast, rv_to_impl(d), None);
    let r: Result<(), cddl::validator::cbor::Error<std::io::Error>> = cv.validate();
    r
  }) {
    Ok(Ok(())) => Rep::Ok,
    Ok(Err(cddl::validator::cbor::Error::Validation(l))) => {
      Rep::Val(l.into_iter().map(|e| (e.cbor_location, e.reason)).collect())
    }
    Ok(Err(e)) => Rep::Other(format!("{e}")),
    Err(p) => Rep::Panic(p),
  }
}
fn jrep_str(schema: &str, json: &str) -> Rep {
  match catch(|| cddl::validate_json_from_str(schema, json, None)) {
    Ok(Ok(())) => Rep::Ok,
    Ok(Err(cddl::validator::json::Error::Validation(l))) => {
      Rep::Val(l.into_iter().map(|e| (e.json_location, e.reason)).collect())
    }
    Ok(Err(e)) => Rep::Other(format!("{e}")),
    Err(p) => Rep::Panic(p),
  }
}

/// does the JSON pointer resolve to a node of `d`?
fn resolves(d: &serde_json::Value, loc: &str) -> bool {
  if loc.is_empty() {
    return true;
  }
  if !loc.starts_with('/') {
    return false;
  }
  // the crate writes keys raw into the path (no ~0 / ~1 escaping), so a key may itself contain '/': a path resolves if
  // SOME split of it into existing keys / indexes walks down the document
  fn walk(d: &serde_json::Value, rest: &str) -> bool {
    if rest.is_empty() {
      return true;
    }
    let Some(rest) = rest.strip_prefix('/') else { return false };
    match d {
      serde_json::Value::Object(o) => o.iter().any(|(k, v)| rest.strip_prefix(k.as_str()).is_some_and(|r| (r.is_empty() || r.starts_with('/')) && walk(v, r))),
      serde_json::Value::Array(a) => {
        let seg = rest.split('/').next().unwrap_or("");
        seg.parse::<usize>().ok().and_then(|i| a.get(i)).is_some_and(|v| walk(v, &rest[seg.len()..]))
      }
      _ => false,
    }
  }
  walk(d, loc)
}

#[derive(Default)]
struct Acc {
  v: VAcc,
  states: u64,
  calls: u64,
  nontrivial: u64,
  errs: u64,
  obs: BTreeMap<String, u64>,
  samples: Vec<serde_json::Value>,
}

fn viol(kind: &str, schema: &str, doc: &str, observed: String, expected: &str) -> Viol {
  Viol { kind: kind.into(), case: json!({"schema": schema, "json": doc}), observed, expected: expected.into(), finding: None }
}

fn sweep(run: &mut Run, tys: &[Ty], lib: &[RuleT], docs: &[RV], sdocs: &[serde_json::Value]) {
  let texts: Vec<String> = docs.iter().map(to_json_text).collect();
  let accs = par_sweep(tys.len(), 16, Acc::default, |i, a: &mut Acc| {
    let text = assemble(tys[i].clone(), lib).render();
    let ast = match catch(|| cddl::cddl_from_str(&text, false)) {
      Ok(Ok(x)) => x,
      _ => return,
    };
    // forward history
    let fwd: Vec<Rep> = sdocs.iter().map(|d| jrep(&ast, d)).collect();
    let cf: Vec<Rep> = docs.iter().map(|d| crep(&ast, d)).collect();
    let mut ok = 0;
    let mut rej = 0;
    for (k, r) in fwd.iter().enumerate() {
      a.states += 1;
      a.calls += 4;
      match r {
        Rep::Ok => ok += 1,
        Rep::Val(l) => {
          rej += 1;
          a.errs += l.len() as u64;
          if l.is_empty() {
            a.v.push(viol("json-empty-error-list", &text, &texts[k], "Err(Validation([]))".into(), "non-empty list"));
          }
          for (loc, reason) in l {
            if !resolves(&sdocs[k], loc) {
              a.v.push(viol(
                "json-location",
                &text,
                &texts[k],
                format!("location {:?} (reason {:?}) does not resolve in the document", loc, trunc(reason)),
                "\"\" or a path to an existing node",
              ));
              break;
            }
          }
        }
        Rep::Panic(p) => a.v.push(viol("json-panic", &text, &texts[k], format!("PANIC {p}"), "Ok or Err")),
        Rep::Other(e) => a.v.push(viol("json-error-kind", &text, &texts[k], format!("Err(other {e})"), "Ok or Err(Validation) for a well-formed pair")),
      }
      // immediate repetition
      let again = jrep(&ast, &sdocs[k]);
      if again != *r {
        a.v.push(viol("json-repeat", &text, &texts[k], format!("{} then {}", r.short(), again.short()), "identical report"));
      }
      if let Rep::Val(l) = &cf[k] {
        if l.is_empty() {
          a.v.push(viol("cbor-empty-error-list", &text, &texts[k], "Err(Validation([]))".into(), "non-empty list"));
        }
      }
      let cagain = crep(&ast, &docs[k]);
      if cagain != cf[k] {
        a.v.push(viol("cbor-repeat", &text, &texts[k], format!("{} then {}", cf[k].short(), cagain.short()), "identical report"));
      }
    }
    // reverse history: every call now has a different set of predecessors
    for k in (0..sdocs.len()).rev() {
      let r = jrep(&ast, &sdocs[k]);
      if r != fwd[k] {
        a.v.push(viol("json-history", &text, &texts[k], format!("{} vs {} after other calls", fwd[k].short(), r.short()), "identical report"));
      }
    }
    // string entry point (own parse of schema and document) on one document per schema
    let k = i % sdocs.len();
    let r = jrep_str(&text, &texts[k]);
    if r != fwd[k] {
      a.v.push(viol("json-route", &text, &texts[k], format!("{} vs string entry point {}", fwd[k].short(), r.short()), "identical report"));
    }
    if ok > 0 && rej > 0 {
      a.nontrivial += sdocs.len() as u64;
    }
    *a.obs.entry(format!("accepting={} rejecting={}", (ok > 0) as u8, (rej > 0) as u8)).or_insert(0) += 1;
    if a.samples.len() < 2 && i % 613 == 5 {
      a.samples.push(json!({"schema": text, "json": texts[k], "report": fwd[k].short()}));
    }
  });
  for a in accs {
    run.absorb(a.v);
    run.states += a.states;
    run.transitions += a.calls;
    run.traces += a.states;
    run.nontrivial += a.nontrivial;
    run.add("validation_errors_inspected", a.errs);
    for s in a.samples {
      run.sample(s);
    }
    let mut o0: BTreeMap<String, u64> =
      run.extra.get("schema_classes").and_then(|x| serde_json::from_value(x.clone()).ok()).unwrap_or_default();
    for (k, v) in a.obs {
      *o0.entry(k).or_insert(0) += v;
    }
    run.set("schema_classes", json!(o0));
  }
}

fn quiet_stderr<T>(f: impl FnOnce() -> T) -> T {
  unsafe {
    let saved = libc::dup(2);
    let nul = libc::open(b"/dev/null\0".as_ptr() as *const libc::c_char, libc::O_WRONLY);
    if saved < 0 || nul < 0 {
      return f();
    }
    libc::dup2(nul, 2);
    let r = f();
    libc::dup2(saved, 2);
    libc::close(nul);
    libc::close(saved);
    r
  }
}

fn kinds(run: &mut Run) {
  use cddl::validator::cbor::Error as CE;
  use cddl::validator::json::Error as JE;
  // (the empty text is not in the table: whether it is a schema at all is C03's question)
  let bad_schemas = ["r = ", "r = {", "= int", "r = int\nr = tstr", "r = [", "r = 1..", "r == int", "r = int .size", "\"r\" = int"];
  let good_schema = "r = {a: int}";
  let bad_json = ["", "{", "[1,", "nul", "{\"a\":}", "{\"a\" 1}", "[1 2]", "\"a", "01"];
  let good_nonconf = "{\"a\":\"x\"}";
  let bad_cbor: [&[u8]; 6] = [&[], &[0x18], &[0x61], &[0x81], &[0xa1, 0x61, 0x61], &[0x1c]];
  let mut n = 0u64;
  for s in bad_schemas {
    n += 2;
    match catch(|| cddl::validate_json_from_str(s, "1", None)) {
      Ok(Err(JE::CDDLParsing(_))) => {}
      Ok(x) => run.viol(viol("json-error-kind", s, "1", format!("{:?}", x.map_err(|e| format!("{e:?}"))), "Err(CDDLParsing) for a malformed schema")),
      Err(p) => run.viol(viol("json-panic", s, "1", p, "Err(CDDLParsing)")),
    }
    match catch(|| cddl::validate_cbor_from_slice(s, &[1], None)) {
      Ok(Err(CE::CDDLParsing(_))) => {}
      Ok(x) => run.viol(viol("cbor-error-kind", s, "01", trunc(&format!("{:?}", x.map_err(|e| format!("{e:?}")))), "Err(CDDLParsing) for a malformed schema")),
      Err(p) => run.viol(viol("cbor-panic", s, "01", p, "Err(CDDLParsing)")),
    }
  }
  for j in bad_json {
    n += 1;
    match catch(|| cddl::validate_json_from_str(good_schema, j, None)) {
      Ok(Err(JE::JSONParsing(_))) => {}
      Ok(x) => run.viol(viol("json-error-kind", good_schema, j, trunc(&format!("{:?}", x.map_err(|e| format!("{e:?}")))), "Err(JSONParsing) for a malformed document")),
      Err(p) => run.viol(viol("json-panic", good_schema, j, p, "Err(JSONParsing)")),
    }
  }
  for b in bad_cbor {
    n += 1;
    match catch(|| cddl::validate_cbor_from_slice(good_schema, b, None)) {
      Ok(Err(CE::CBORParsing(_))) => {}
      Ok(x) => run.viol(viol("cbor-error-kind", good_schema, &hex(b), trunc(&format!("{:?}", x.map_err(|e| format!("{e:?}")))), "Err(CBORParsing) for a malformed document")),
      Err(p) => run.viol(viol("cbor-panic", good_schema, &hex(b), p, "Err(CBORParsing)")),
    }
  }
  n += 2;
  match catch(|| cddl::validate_json_from_str(good_schema, good_nonconf, None)) {
    Ok(Err(JE::Validation(l))) if !l.is_empty() => {}
    Ok(x) => run.viol(viol("json-error-kind", good_schema, good_nonconf, trunc(&format!("{:?}", x.map_err(|e| format!("{e:?}")))), "Err(Validation(non-empty))")),
    Err(p) => run.viol(viol("json-panic", good_schema, good_nonconf, p, "Err(Validation)")),
  }
  match catch(|| cddl::validate_cbor_from_slice(good_schema, &[0xa1, 0x61, 0x61, 0x61, 0x78], None)) {
    Ok(Err(CE::Validation(l))) if !l.is_empty() => {}
    Ok(x) => run.viol(viol("cbor-error-kind", good_schema, "a161616178", trunc(&format!("{:?}", x.map_err(|e| format!("{e:?}")))), "Err(Validation(non-empty))")),
    Err(p) => run.viol(viol("cbor-panic", good_schema, "a161616178", p, "Err(Validation)")),
  }
  run.states += n;
  run.transitions += n;
  run.traces += n;
  run.set("error_kind_cases", json!(n));
}


// ---------------------------------------------------------------------------------------
// struct family: maps with several members (incl. `any`-typed, nested map / array valued and
// table members) x documents with nested values: the depth at which location push/restore
// and speculative error truncation interact (DESIGN.md section 9).

fn struct_members() -> Vec<Entry> {
  let kv = |occ: Occ, k: Key, t: Ty| Entry { occ, kind: EK::Val(Some(k), t) };
  let bare = |s: &str| Key::Bare(s.into());
  let inner_map = |k: &str, t: T2| T2::Map(Grp(vec![vec![Entry { occ: Occ::One, kind: EK::Val(Some(Key::Bare(k.into())), ty1(t)) }]]));
  let arr = |t: T2| T2::Arr(Grp(vec![vec![ent(Occ::Star, ty1(t))]]));
  vec![
    kv(Occ::One, bare("a"), ty1(name("int"))),
    kv(Occ::One, bare("a"), ty1(name("any"))),
    kv(Occ::Opt, bare("a"), ty1(name("tstr"))),
    kv(Occ::One, bare("b"), ty1(name("tstr"))),
    kv(Occ::One, bare("b"), ty1(name("any"))),
    kv(Occ::One, bare("b"), ty1(inner_map("a", name("int")))),
    kv(Occ::Opt, bare("b"), ty1(arr(name("int")))),
    kv(Occ::One, bare("c"), ty1(name("int"))),
    kv(Occ::One, bare("c"), Ty(vec![t1(name("int")), t1(inner_map("a", name("tstr")))])),
    kv(Occ::Opt, bare("c"), ty1(name("any"))),
    kv(Occ::Star, Key::Arrow(t1(name("tstr")), false), ty1(name("int"))),
    kv(Occ::Star, Key::Arrow(t1(name("tstr")), false), ty1(name("any"))),
    Entry { occ: Occ::One, kind: EK::Ref("gk".into(), vec![]) },
  ]
}

fn struct_docs() -> Vec<RV> {
  let vals: Vec<RV> = vec![
    i(1),
    t("x"),
    RV::Map(vec![(t("a"), i(1))]),
    RV::Map(vec![(t("a"), t("x"))]),
    RV::Array(vec![i(1)]),
    RV::Array(vec![i(1), t("x")]),
  ];
  let mut out = vec![];
  let n = vals.len() + 1;
  for x in 0..n {
    for y in 0..n {
      for z in 0..n {
        let mut es = vec![];
        for (k, idx) in [("a", x), ("b", y), ("c", z)] {
          if idx > 0 {
            es.push((t(k), vals[idx - 1].clone()));
          }
        }
        out.push(RV::Map(es));
      }
    }
  }
  out
}

/// rule graphs with cycles (every pair of 27 rule bodies over the names a, b in the three reference patterns, 1 and 2 rules):
/// the recursion guards have their own reports ("recursive rule reference ..."), built from the validator's bookkeeping
fn cycle_family(run: &mut Run, tier: Tier) {
  let tbodies = [
    "@", "@ .size 3", "@ .eq 1", "[@]", "[* @]", "{a: @}", "{* tstr => @}", "@ / int", "int / @", "~@", "#6.1(@)", "@ .and @", "(@)", "[? @, @]", "{? a: @, b: @}",
  ];
  let gbodies = ["(@)", "(? int, @)", "(a: @)", "(* @)", "(@ // int)"];
  let nb = tbodies.len() + gbodies.len();
  let body = |k: usize, target: &str| -> String { if k < tbodies.len() { tbodies[k].replace('@', target) } else { gbodies[k - tbodies.len()].replace('@', target) } };
  let mut schemas: Vec<String> = vec![];
  for k1 in 0..nb {
    schemas.push(format!("a = {}\n", body(k1, "a")));
    for k2 in 0..nb {
      for (x, y) in [("b", "a"), ("b", "b"), ("a", "b")] {
        schemas.push(format!("a = {}\nb = {}\n", body(k1, x), body(k2, y)));
      }
      if tier == Tier::Thorough {
        for k3 in [0usize, 3, 5, 15, 17] {
          schemas.push(format!("r = {{m: a}}\na = {}\nb = {}\nc = {}\n", body(k1, "b"), body(k2, "c"), body(k3, "a")));
        }
      }
    }
  }
  // under a map member too (the location of the report is then not the root)
  let n0 = schemas.len();
  for i in (0..n0).step_by(tier.pick(7, 1)) {
    let s = schemas[i].clone();
    schemas.push(format!("r = {{m: a, ? n: a}}\n{s}"));
  }
  let docs = ["1", "\"x\"", "[]", "[1]", "[[1]]", "{}", "{\"a\":1}", "{\"a\":{\"a\":1}}", "{\"m\":1}", "{\"m\":[1],\"n\":{\"a\":1}}", "null"];
  let sdocs: Vec<serde_json::Value> = docs.iter().map(|d| serde_json::from_str(d).unwrap()).collect();
  let accs = par_sweep(schemas.len(), 16, Acc::default, |i, a: &mut Acc| {
    let text = &schemas[i];
    let Ok(Ok(ast)) = catch(|| cddl::cddl_from_str(text, false)) else { return };
    for (d, sd) in docs.iter().zip(sdocs.iter()) {
      a.states += 1;
      // the same call three times on fresh validators: verdict and ordered (location, reason) list must not move
      let r1 = jrep(&ast, sd);
      let r2 = jrep(&ast, sd);
      let r3 = jrep_str(text, d);
      a.calls += 3;
      let bad = |x: &Rep, y: &Rep| x != y;
      if bad(&r1, &r2) || bad(&r1, &r3) {
        a.v.push(Viol {
          kind: "json-repeat".into(),
          case: json!({"schema": text, "json": d, "family": "cycles"}),
          observed: format!("{} then {} then (string entry point) {}", r1.short(), r2.short(), r3.short()),
          expected: "the same verdict and the same ordered list of (location, reason) pairs".into(),
          finding: None,
        });
      }
      if let Rep::Val(l) = &r1 {
        if l.is_empty() {
          a.v.push(Viol { kind: "json-empty-list".into(), case: json!({"schema": text, "json": d}), observed: "Err(Validation([]))".into(), expected: "a non-empty list".into(), finding: None });
        }
        for (loc, reason) in l {
          if !resolves(sd, loc) {
            a.v.push(Viol { kind: "json-location".into(), case: json!({"schema": text, "json": d}), observed: format!("location {loc:?} (reason {reason:?}) does not resolve in the document"), expected: "\"\" or a path to an existing node".into(), finding: None });
          }
        }
      }
      if let Rep::Panic(p) = &r1 {
        a.v.push(Viol { kind: "panic".into(), case: json!({"schema": text, "json": d}), observed: p.clone(), expected: "Ok or Err".into(), finding: None });
      }
    }
  });
  let mut n = 0;
  for a in accs {
    run.absorb(a.v);
    run.states += a.states;
    run.transitions += a.calls;
    n += a.states;
  }
  run.set("cycle_family", json!({"schemas": schemas.len(), "documents": docs.len(), "states": n}));
}

fn slash_family() -> (Vec<Ty>, Vec<RV>) {
  let kv = |occ: Occ, k: &str, t: Ty| Entry { occ, kind: EK::Val(Some(Key::Arrow(t1(text(k)), false)), t) };
  let inner_map = |k: &str, t: T2| T2::Map(Grp(vec![vec![Entry { occ: Occ::One, kind: EK::Val(Some(Key::Arrow(t1(text(k)), false)), ty1(t)) }]]));
  let arr = |t: T2| T2::Arr(Grp(vec![vec![ent(Occ::Star, ty1(t))]]));
  let ms = vec![
    kv(Occ::One, "a/b", ty1(name("int"))),
    kv(Occ::One, "a/b", ty1(inner_map("c", name("int")))),
    kv(Occ::One, "a/b", ty1(inner_map("a/b", name("tstr")))),
    kv(Occ::Opt, "x/y/z", ty1(arr(name("int")))),
    kv(Occ::One, "c", ty1(name("int"))),
    kv(Occ::Opt, "c", ty1(inner_map("a/b", name("int")))),
    kv(Occ::One, "/", ty1(name("tstr"))),
    Entry { occ: Occ::Star, kind: EK::Val(Some(Key::Arrow(t1(name("tstr")), false)), ty1(name("int"))) },
  ];
  let mut tys = vec![];
  for a in &ms {
    tys.push(ty1(T2::Map(Grp(vec![vec![a.clone()]]))));
    for b in &ms {
      tys.push(ty1(T2::Map(Grp(vec![vec![a.clone(), b.clone()]]))));
      tys.push(ty1(T2::Arr(Grp(vec![vec![ent(Occ::Star, ty1(T2::Map(Grp(vec![vec![a.clone(), b.clone()]]))))]]))));
    }
  }
  let vals: Vec<RV> = vec![i(1), t("x"), RV::Map(vec![(t("c"), i(1))]), RV::Map(vec![(t("a/b"), i(1))]), RV::Map(vec![(t("a/b"), t("x"))]), RV::Array(vec![i(1), t("x")])];
  let keys = ["a/b", "x/y/z", "c", "/"];
  let n = vals.len() + 1;
  let mut docs = vec![];
  let mut idx = vec![0usize; keys.len()];
  loop {
    let mut es = vec![];
    for (k, &x) in keys.iter().zip(idx.iter()) {
      if x > 0 {
        es.push((t(k), vals[x - 1].clone()));
      }
    }
    docs.push(RV::Map(es.clone()));
    docs.push(RV::Array(vec![RV::Map(es)]));
    let mut p = 0;
    loop {
      if p == idx.len() {
        return (tys, docs);
      }
      idx[p] += 1;
      if idx[p] < n {
        break;
      }
      idx[p] = 0;
      p += 1;
    }
  }
}

fn struct_types(tier: Tier) -> Vec<Ty> {
  let ms = struct_members();
  let mut out = vec![];
  for a in &ms {
    out.push(ty1(T2::Map(Grp(vec![vec![a.clone()]]))));
    for b in &ms {
      out.push(ty1(T2::Map(Grp(vec![vec![a.clone(), b.clone()]]))));
      out.push(ty1(T2::Map(Grp(vec![vec![a.clone()], vec![b.clone()]]))));
      // the same struct as an array element (locations get an index segment)
      out.push(ty1(T2::Arr(Grp(vec![vec![ent(Occ::Star, ty1(T2::Map(Grp(vec![vec![a.clone(), b.clone()]]))))]]))));
      for c in &ms {
        if tier == Tier::Thorough || (lit_a(c) != lit_a(b) && lit_a(a) != lit_a(b)) {
          out.push(ty1(T2::Map(Grp(vec![vec![a.clone(), b.clone(), c.clone()]]))));
        }
      }
    }
  }
  out
}
fn lit_a(e: &Entry) -> String {
  match &e.kind {
    EK::Val(Some(Key::Bare(s)), _) => s.clone(),
    EK::Ref(..) => "a".into(),
    _ => "*".into(),
  }
}

// ---------------------------------------------------------------------------------------
// call histories: every call of a small alphabet that touches each dependency which could
// cache across calls (regex, fancy-regex, pest_vm/ABNF, chrono, uriparse, csv, the parser)
// is executed (a) alone in a fresh process = the reference observation, (b) after every
// other call / pair of calls, each history in its own fresh process, (c) concurrently with
// every other call on two free-running threads (sampled schedules, reported separately).

pub struct Call {
  pub kind: &'static str,
  pub schema: &'static str,
  pub doc: &'static str,
}
pub fn calls() -> Vec<Call> {
  let c = |kind, schema, doc| Call { kind, schema, doc };
  vec![
    c("json", r#"r = tstr .regexp "[0-9]{4}""#, r#""id-20260922""#),
    c("json", r#"r = tstr .iregexp "[0-9]{4}""#, r#""id-20260922""#),
    c("json", r#"r = tstr .pcre "[0-9]{4}""#, r#""id-20260922""#),
    c("json", r#"r = tstr .regexp "[0-9]{4}""#, r#""2026""#),
    c("json", r#"r = tstr .iregexp "[0-9]{4}""#, r#""2026""#),
    c("json", r#"r = tstr .regexp "[0-9]{4}""#, r#""abc""#),
    c("cbor", r#"r = tstr .regexp "[0-9]{4}""#, r#""id-20260922""#),
    c("cbor", r#"r = tstr .iregexp "[0-9]{4}""#, r#""id-20260922""#),
    c("cbor", r#"r = tstr .pcre "[0-9]{4}""#, r#""2026""#),
    c("json", r#"r = tstr .regexp "a|b""#, r#""cab""#),
    c("json", r#"r = tstr .pcre "a|b""#, r#""cab""#),
    c("json", "r = tstr .abnf \"d\\nd = 1*DIGIT\\nDIGIT = %x30-39\\n\"", r#""123""#),
    c("json", "r = tstr .abnf \"d\\nd = 1*DIGIT\\nDIGIT = %x30-39\\n\"", r#""12a""#),
    c("json", "r = tdate", r#""2020-01-01T00:00:00Z""#),
    c("json", "r = tdate", r#""2020-13-01T00:00:00Z""#),
    c("json", "r = uri", r#""http://x.y/z""#),
    c("json", "r = m<int>\nm<t> = [* t]", "[1,2]"),
    c("json", "r = m<tstr>\nm<t> = [* t]", "[1,2]"),
    c("json", "r = {a: int, b: {c: tstr}}", r#"{"a":"x","b":{"c":1}}"#),
    c("cbor", "r = {a: int, b: {c: tstr}}", r#"{"a":"x","b":{"c":1}}"#),
    c("json", r#"r = "a" .cat "b""#, r#""ab""#),
    c("json", "r = 1 .plus 2", "3"),
    c("csv", "r = [* [tstr, uint]]", "a,1\nb,2\n"),
    c("csv", "r = [* [tstr, uint]]", "a,x\n"),
    c("fmt", "r = {a: int, b: [* tstr]}\ng = (x: 1.0, ~r)", ""),
    c("cbor", "r = #6.1(int)", "TAG1"),
  ]
}

pub fn run_call(c: &Call) -> String {
  let rep = |r: Rep| r.short();
  match c.kind {
    "json" => rep(jrep_str(c.schema, c.doc)),
    "cbor" => {
      let bytes: Vec<u8> = if c.doc == "TAG1" {
        vec![0xc1, 0x01]
      } else {
        let v: serde_json::Value = serde_json::from_str(c.doc).unwrap();
        let mut b = vec![];
        ciborium::ser::into_writer(&v, &mut b).unwrap();
        b
      };
      match catch(|| cddl::validate_cbor_from_slice(c.schema, &bytes, None)) {
        Ok(Ok(())) => "Ok".into(),
        Ok(Err(cddl::validator::cbor::Error::Validation(l))) => {
          rep(Rep::Val(l.into_iter().map(|e| (e.cbor_location, e.reason)).collect()))
        }
        Ok(Err(e)) => format!("Err(other {e})"),
        Err(p) => format!("PANIC {p}"),
      }
    }
    "csv" => match catch(|| cddl::validate_csv_from_str(c.schema, c.doc, Some(false), None)) {
      Ok(Ok(())) => "Ok".into(),
      Ok(Err(e)) => trunc(&format!("Err({e})")),
      Err(p) => format!("PANIC {p}"),
    },
    _ => match catch(|| cddl::cddl_from_str(c.schema, false).map(|a| a.to_string())) {
      Ok(Ok(s)) => format!("formatted {:?}", s),
      Ok(Err(e)) => format!("Err({e})"),
      Err(p) => format!("PANIC {p}"),
    },
  }
}

/// `mc c14-hist i,j,k` : run the calls in order in this (fresh) process, print one report per line
pub fn hist_main(arg: &str) {
  quiet_panics();
  let cs = calls();
  let out: Vec<String> = quiet_stderr(|| arg.split(',').map(|x| run_call(&cs[x.parse::<usize>().unwrap()])).collect());
  println!("{}", serde_json::to_string(&out).unwrap());
}
/// `mc c14-conc i,j` : the two calls on two free-running threads, 8 rounds each
pub fn conc_main(arg: &str) {
  quiet_panics();
  let cs = calls();
  let ix: Vec<usize> = arg.split(',').map(|x| x.parse().unwrap()).collect();
  let out: Vec<Vec<String>> = quiet_stderr(|| {
    let bar = std::sync::Barrier::new(2);
    std::thread::scope(|s| {
      let hs: Vec<_> = ix
        .iter()
        .map(|&i| {
          let c = &cs[i];
          let bar = &bar;
          s.spawn(move || {
            bar.wait();
            (0..8).map(|_| run_call(c)).collect::<Vec<String>>()
          })
        })
        .collect();
      hs.into_iter().map(|h| h.join().unwrap()).collect()
    })
  });
  println!("{}", serde_json::to_string(&out).unwrap());
}

fn spawn(sub: &str, arg: &str) -> Option<serde_json::Value> {
  let exe = std::env::current_exe().ok()?;
  let o = std::process::Command::new(exe).arg(sub).arg(arg).stderr(std::process::Stdio::null()).output().ok()?;
  serde_json::from_slice(&o.stdout).ok()
}

fn histories(run: &mut Run, tier: Tier) {
  let cs = calls();
  let n = cs.len();
  // reference observations: each call alone in a fresh process (twice: must be identical)
  let mut base: Vec<String> = vec![];
  for i in 0..n {
    let a = spawn("c14-hist", &i.to_string()).and_then(|v| v[0].as_str().map(|s| s.to_string()));
    let b = spawn("c14-hist", &i.to_string()).and_then(|v| v[0].as_str().map(|s| s.to_string()));
    match (a, b) {
      (Some(a), Some(b)) if a == b => base.push(a),
      (a, b) => {
        run.viol(Viol {
          kind: "history".into(),
          case: json!({"calls": [i], "schema": cs[i].schema, "doc": cs[i].doc}),
          observed: format!("{a:?} vs {b:?} in two fresh processes"),
          expected: "identical report".into(),
          finding: None,
        });
        base.push(String::new());
      }
    }
  }
  let mut seqs: Vec<Vec<usize>> = vec![];
  for i in 0..n {
    for j in 0..n {
      seqs.push(vec![i, j]);
      if tier == Tier::Thorough {
        for k in 0..n {
          seqs.push(vec![i, j, k]);
        }
      }
    }
  }
  #[derive(Default)]
  struct A {
    v: Vec<Viol>,
    calls: u64,
    engine_err: u64,
  }
  let accs = par_sweep(seqs.len(), 4, A::default, |x, a: &mut A| {
    let seq = &seqs[x];
    let arg = seq.iter().map(|i| i.to_string()).collect::<Vec<_>>().join(",");
    let Some(out) = spawn("c14-hist", &arg) else {
      a.engine_err += 1;
      return;
    };
    for (pos, &ci) in seq.iter().enumerate() {
      a.calls += 1;
      let got = out[pos].as_str().unwrap_or("");
      if got != base[ci] && a.v.len() < 5 {
        a.v.push(Viol {
          kind: "history".into(),
          case: json!({"calls": seq, "position": pos, "history": seq[..pos].iter().map(|&h| json!({"kind": cs[h].kind, "schema": cs[h].schema, "doc": cs[h].doc})).collect::<Vec<_>>(),
                       "kind": cs[ci].kind, "schema": cs[ci].schema, "doc": cs[ci].doc}),
          observed: format!("after the history: {}", trunc(got)),
          expected: format!("as in a fresh process: {}", trunc(&base[ci])),
          finding: None,
        });
      }
    }
  });
  let mut hist_calls = 0;
  for a in accs {
    hist_calls += a.calls;
    if a.engine_err > 0 {
      run.notes.push(format!("{} history subprocesses could not be run", a.engine_err));
      run.exhaustive = false;
    }
    for v in a.v {
      run.viol(v);
    }
  }
  run.states += n as u64;
  run.transitions += hist_calls;
  run.traces += hist_calls;
  run.set("history_alphabet_calls", json!(n));
  run.set("histories_explored", json!(seqs.len()));
  run.set("history_max_length", json!(tier.pick(2, 3)));
  run.sample(json!({"history": [cs[0].schema, cs[1].schema], "doc": cs[1].doc, "fresh_process_report": base[1]}));
  // concurrent pairs: sampled schedules (free-running OS threads), reported separately
  let mut pairs = vec![];
  for i in 0..n {
    for j in i..n {
      pairs.push((i, j));
    }
  }
  let accs = par_sweep(pairs.len(), 2, A::default, |x, a: &mut A| {
    let (i, j) = pairs[x];
    let Some(out) = spawn("c14-conc", &format!("{i},{j}")) else {
      a.engine_err += 1;
      return;
    };
    for (t, &ci) in [i, j].iter().enumerate() {
      for r in out[t].as_array().map(|x| x.as_slice()).unwrap_or(&[]) {
        a.calls += 1;
        if r.as_str().unwrap_or("") != base[ci] && a.v.is_empty() {
          a.v.push(Viol {
            kind: "concurrent".into(),
            case: json!({"calls": [i, j], "kind": cs[ci].kind, "schema": cs[ci].schema, "doc": cs[ci].doc, "other_schema": cs[if t == 0 { j } else { i }].schema}),
            observed: format!("concurrently with the other call: {}", trunc(r.as_str().unwrap_or(""))),
            expected: format!("as in a fresh process: {}", trunc(&base[ci])),
            finding: None,
          });
        }
      }
    }
  });
  let mut cc = 0;
  for a in accs {
    cc += a.calls;
    for v in a.v {
      run.viol(v);
    }
  }
  run.set("concurrent_pairs_sampled_schedules", json!({"pairs": pairs.len(), "calls_compared": cc, "note": "two free-running OS threads, 8 rounds each: SAMPLING of schedules, not exhaustive; not counted in states/transitions"}));
}

pub fn run(tier: Tier) -> i32 {
  quiet_panics();
  let mut run = Run::new("C14", tier, "model_checking");
  let cfg = core_cfg();
  let w = std::env::var("VERIF_W").ok().and_then(|s| s.parse().ok()).unwrap_or(tier.pick(3usize, 4usize));
  let en = Enum::new(&cfg, w);
  let docs = json_universe(Tier::Quick);
  let sdocs: Vec<serde_json::Value> = docs.iter().map(crate::verdicts::rv_to_serde).collect();
  let lib = helper_rules();
  for k in 1..=w {
    let tys = en.types(k);
    sweep(&mut run, tys, &lib, &docs, &sdocs);
    run.add("schemas", tys.len() as u64);
  }
  {
    let sd = struct_docs();
    let ssd: Vec<serde_json::Value> = sd.iter().map(crate::verdicts::rv_to_serde).collect();
    let st = struct_types(tier);
    sweep(&mut run, &st, &lib, &sd, &ssd);
    run.set("struct_family", json!({"schemas": st.len(), "documents": sd.len()}));
  }
  {
    // keys that contain the path separator (and a nested one): the location is built from raw key text
    let (st, sd) = slash_family();
    let ssd: Vec<serde_json::Value> = sd.iter().map(crate::verdicts::rv_to_serde).collect();
    sweep(&mut run, &st, &lib, &sd, &ssd);
    run.set("slash_key_family", json!({"schemas": st.len(), "documents": sd.len()}));
  }
  cycle_family(&mut run, tier);
  histories(&mut run, tier);
  quiet_stderr(|| kinds(&mut run)); // the string entry points print parser diagnostics to stderr
  run.evaluations = run.transitions;
  run.rule = format!(
    "state = (schema, JSON document): every type term of weight <= {w} over the C01 core alphabet x the {}-value JSON universe. In each state \
     the real JSONValidator and CBORValidator reports (verdict + ordered (location, reason) list) are taken; transitions = the calls of the \
     histories explored from it: immediate repetition, the same call after every other document of the universe was validated (reverse sweep), \
     the string entry point for one document per schema. Oracle: Validation lists are non-empty, every JSON location is \"\" or resolves \
     in the document (keys are matched raw, so a key may contain '/'; a slash-key family has keys \"a/b\", \"x/y/z\", \"/\"; a cycle family = 1-2 rule graphs over 20 rule bodies in every reference pattern, also under a map member, each call made three times), all reports of a state are identical. Plus a fixed table of malformed schemas / malformed JSON / \
     truncated CBOR / non-conforming documents whose error kinds must be CDDLParsing / JSONParsing / CBORParsing / Validation. \
     Struct family: every map of 1-3 members (and two-alternative maps, and arrays of two-member maps) over a 13-member alphabet (int/any/tstr, \
     nested map and array values, choice values, tables, group reference) x the 343 objects over keys a,b,c with 6 nested/scalar values, judged the same way. \
     Call histories: an alphabet of 26 calls touching every dependency that could cache across calls (.regexp/.iregexp/.pcre with the same pattern, ABNF, \
     tdate, uri, generics, .cat/.plus, CSV, parse+format, tags) - each call alone in a fresh process is the reference; every ordered pair (thorough: triple) \
     of calls is run as a history in its own fresh process and every call of it must report exactly as in the reference. \
     non-trivial = states of schemas that accept some and reject some document.",
    docs.len()
  );
  run.assumptions = vec![
    "interleavings of concurrent calls are not enumerated (no synchronisation points exist for a controlled scheduler; loom/shuttle do not intercept the std primitives inside regex/pest): every pair of calls is additionally run on two free-running threads and compared with the fresh-process reference - that part is SAMPLING of schedules and is reported separately (coverage.concurrent_pairs_sampled_schedules)".into(),
  ];
  run.finish()
}

pub fn replay(case: &serde_json::Value, kind: &str) -> Option<Viol> {
  let s = case["schema"].as_str()?;
  let d = case["json"].as_str().unwrap_or("");
  let mk = |o: String| Viol { kind: kind.into(), case: case.clone(), observed: o, expected: String::new(), finding: None };
  match kind {
    "history" | "concurrent" => {
      // the recorded history in a fresh process vs the judged call alone in a fresh process
      let seq: Vec<usize> = case["calls"].as_array()?.iter().filter_map(|x| x.as_u64().map(|x| x as usize)).collect();
      let pos = case["position"].as_u64().unwrap_or(seq.len() as u64 - 1) as usize;
      let arg = seq.iter().map(|i| i.to_string()).collect::<Vec<_>>().join(",");
      let alone = spawn("c14-hist", &seq[pos].to_string())?;
      let after = spawn(if kind == "history" { "c14-hist" } else { "c14-conc" }, &arg)?;
      let a = alone[0].as_str()?.to_string();
      let differs = if kind == "history" {
        after[pos].as_str()? != a
      } else {
        after.as_array()?.iter().zip(&seq).any(|(rs, &ci)| ci == seq[pos] && rs.as_array().map(|rs| rs.iter().any(|r| r.as_str() != Some(&a))).unwrap_or(false))
      };
      return differs.then(|| mk(format!("alone {a} vs with the other calls {}", trunc(&after.to_string()))));
    }
    "json-location" | "json-empty-error-list" => match jrep_str(s, d) {
      Rep::Val(l) => {
        let doc: serde_json::Value = serde_json::from_str(d).ok()?;
        if l.is_empty() {
          return Some(mk("empty list".into()));
        }
        l.iter().find(|(loc, _)| !resolves(&doc, loc)).map(|(loc, r)| mk(format!("location {loc:?} ({r}) does not resolve")))
      }
      _ => None,
    },
    "json-repeat" | "json-history" | "json-route" => {
      let a = jrep_str(s, d);
      let b = jrep_str(s, d);
      (a != b).then(|| mk(format!("{} then {}", a.short(), b.short())))
    }
    _ => {
      let a = jrep_str(s, d);
      Some(mk(a.short()))
    }
  }
}
