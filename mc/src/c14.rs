//! C14 — validation failures are reported faithfully and deterministically.
//! States = (schema, document) over the C01 schema space x JSON universe. In every state:
//!  (1) Err(Validation(list)) has a non-empty list;
//!  (2) every JSON error location is "" or a slash path that resolves in the document;
//!  (3) histories: the call is made again immediately, and again after every other
//!      document of the universe was validated (reverse sweep), and once through the
//!      string entry point; verdict and ordered (location, reason) list must be equal;
//!  (4) malformed schema / malformed document / non-conforming document are reported
//!      through different error kinds (both validators).
use crate::cborref::{rv_to_impl, RV};
use crate::core::*;
use crate::docs::*;
use crate::space::*;
use crate::terms::*;
use cddl::validator::{cbor::CBORValidator, json::JSONValidator, Validator};
use serde_json::json;
use std::collections::BTreeMap;

#[derive(Clone, PartialEq, Debug)]
enum Rep {
  Ok,
  Val(Vec<(String, String)>),
  Other(String),
  Panic(String),
}
impl Rep {
  fn short(&self) -> String {
    match self {
      Rep::Ok => "Ok".into(),
      Rep::Val(l) => trunc(&format!("Err(Validation {:?})", l)),
      Rep::Other(s) => format!("Err(other {})", trunc(s)),
      Rep::Panic(s) => format!("PANIC {}", trunc(s)),
    }
  }
}

fn jrep(ast: &cddl::ast::CDDL, d: &serde_json::Value) -> Rep {
  match catch(|| {
    let mut jv = JSONValidator::new(ast, d.clone(), None);
    jv.validate()
  }) {
    Ok(Ok(())) => Rep::Ok,
    Ok(Err(cddl::validator::json::Error::Validation(l))) => {
      Rep::Val(l.into_iter().map(|e| (e.json_location, e.reason)).collect())
    }
    Ok(Err(e)) => Rep::Other(format!("{e}")),
    Err(p) => Rep::Panic(p),
  }
}
fn crep(ast: &cddl::ast::CDDL, d: &RV) -> Rep {
  match catch(|| {
    let mut cv = CBORValidator::new(ast, rv_to_impl(d), None);
    let r: Result<(), cddl::validator::cbor::Error<std::io::Error>> = cv.validate();
    r
  }) {
    Ok(Ok(())) => Rep::Ok,
    Ok(Err(cddl::validator::cbor::Error::Validation(l))) => {
      Rep::Val(l.into_iter().map(|e| (e.cbor_location, e.reason)).collect())
    }
    Ok(Err(e)) => Rep::Other(format!("{e}")),
    Err(p) => Rep::Panic(p),
  }
}
fn jrep_str(schema: &str, json: &str) -> Rep {
  match catch(|| cddl::validate_json_from_str(schema, json, None)) {
    Ok(Ok(())) => Rep::Ok,
    Ok(Err(cddl::validator::json::Error::Validation(l))) => {
      Rep::Val(l.into_iter().map(|e| (e.json_location, e.reason)).collect())
    }
    Ok(Err(e)) => Rep::Other(format!("{e}")),
    Err(p) => Rep::Panic(p),
  }
}

/// does the JSON pointer resolve to a node of `d`?
fn resolves(d: &serde_json::Value, loc: &str) -> bool {
  if loc.is_empty() {
    return true;
  }
  if !loc.starts_with('/') {
    return false;
  }
  d.pointer(loc).is_some()
}

#[derive(Default)]
struct Acc {
  v: VAcc,
  states: u64,
  calls: u64,
  nontrivial: u64,
  errs: u64,
  obs: BTreeMap<String, u64>,
  samples: Vec<serde_json::Value>,
}

fn viol(kind: &str, schema: &str, doc: &str, observed: String, expected: &str) -> Viol {
  Viol { kind: kind.into(), case: json!({"schema": schema, "json": doc}), observed, expected: expected.into(), finding: None }
}

fn sweep(run: &mut Run, tys: &[Ty], lib: &[RuleT], docs: &[RV], sdocs: &[serde_json::Value]) {
  let texts: Vec<String> = docs.iter().map(to_json_text).collect();
  let accs = par_sweep(tys.len(), 16, Acc::default, |i, a: &mut Acc| {
    let text = assemble(tys[i].clone(), lib).render();
    let ast = match catch(|| cddl::cddl_from_str(&text, false)) {
      Ok(Ok(x)) => x,
      _ => return,
    };
    // forward history
    let fwd: Vec<Rep> = sdocs.iter().map(|d| jrep(&ast, d)).collect();
    let cf: Vec<Rep> = docs.iter().map(|d| crep(&ast, d)).collect();
    let mut ok = 0;
    let mut rej = 0;
    for (k, r) in fwd.iter().enumerate() {
      a.states += 1;
      a.calls += 4;
      match r {
        Rep::Ok => ok += 1,
        Rep::Val(l) => {
          rej += 1;
          a.errs += l.len() as u64;
          if l.is_empty() {
            a.v.push(viol("json-empty-error-list", &text, &texts[k], "Err(Validation([]))".into(), "non-empty list"));
          }
          for (loc, reason) in l {
            if !resolves(&sdocs[k], loc) {
              a.v.push(viol(
                "json-location",
                &text,
                &texts[k],
                format!("location {:?} (reason {:?}) does not resolve in the document", loc, trunc(reason)),
                "\"\" or a path to an existing node",
              ));
              break;
            }
          }
        }
        Rep::Panic(p) => a.v.push(viol("json-panic", &text, &texts[k], format!("PANIC {p}"), "Ok or Err")),
        Rep::Other(e) => a.v.push(viol("json-error-kind", &text, &texts[k], format!("Err(other {e})"), "Ok or Err(Validation) for a well-formed pair")),
      }
      // immediate repetition
      let again = jrep(&ast, &sdocs[k]);
      if again != *r {
        a.v.push(viol("json-repeat", &text, &texts[k], format!("{} then {}", r.short(), again.short()), "identical report"));
      }
      if let Rep::Val(l) = &cf[k] {
        if l.is_empty() {
          a.v.push(viol("cbor-empty-error-list", &text, &texts[k], "Err(Validation([]))".into(), "non-empty list"));
        }
      }
      let cagain = crep(&ast, &docs[k]);
      if cagain != cf[k] {
        a.v.push(viol("cbor-repeat", &text, &texts[k], format!("{} then {}", cf[k].short(), cagain.short()), "identical report"));
      }
    }
    // reverse history: every call now has a different set of predecessors
    for k in (0..sdocs.len()).rev() {
      let r = jrep(&ast, &sdocs[k]);
      if r != fwd[k] {
        a.v.push(viol("json-history", &text, &texts[k], format!("{} vs {} after other calls", fwd[k].short(), r.short()), "identical report"));
      }
    }
    // string entry point (own parse of schema and document) on one document per schema
    let k = i % sdocs.len();
    let r = jrep_str(&text, &texts[k]);
    if r != fwd[k] {
      a.v.push(viol("json-route", &text, &texts[k], format!("{} vs string entry point {}", fwd[k].short(), r.short()), "identical report"));
    }
    if ok > 0 && rej > 0 {
      a.nontrivial += sdocs.len() as u64;
    }
    *a.obs.entry(format!("accepting={} rejecting={}", (ok > 0) as u8, (rej > 0) as u8)).or_insert(0) += 1;
    if a.samples.len() < 2 && i % 613 == 5 {
      a.samples.push(json!({"schema": text, "json": texts[k], "report": fwd[k].short()}));
    }
  });
  for a in accs {
    run.absorb(a.v);
    run.states += a.states;
    run.transitions += a.calls;
    run.traces += a.states;
    run.nontrivial += a.nontrivial;
    run.add("validation_errors_inspected", a.errs);
    for s in a.samples {
      run.sample(s);
    }
    let mut o0: BTreeMap<String, u64> =
      run.extra.get("schema_classes").and_then(|x| serde_json::from_value(x.clone()).ok()).unwrap_or_default();
    for (k, v) in a.obs {
      *o0.entry(k).or_insert(0) += v;
    }
    run.set("schema_classes", json!(o0));
  }
}

fn quiet_stderr<T>(f: impl FnOnce() -> T) -> T {
  unsafe {
    let saved = libc::dup(2);
    let nul = libc::open(b"/dev/null\0".as_ptr() as *const libc::c_char, libc::O_WRONLY);
    if saved < 0 || nul < 0 {
      return f();
    }
    libc::dup2(nul, 2);
    let r = f();
    libc::dup2(saved, 2);
    libc::close(nul);
    libc::close(saved);
    r
  }
}

fn kinds(run: &mut Run) {
  use cddl::validator::cbor::Error as CE;
  use cddl::validator::json::Error as JE;
  // (the empty text is not in the table: whether it is a schema at all is C03's question)
  let bad_schemas = ["r = ", "r = {", "= int", "r = int\nr = tstr", "r = [", "r = 1..", "r == int", "r = int .size", "\"r\" = int"];
  let good_schema = "r = {a: int}";
  let bad_json = ["", "{", "[1,", "nul", "{\"a\":}", "{\"a\" 1}", "[1 2]", "\"a", "01"];
  let good_nonconf = "{\"a\":\"x\"}";
  let bad_cbor: [&[u8]; 6] = [&[], &[0x18], &[0x61], &[0x81], &[0xa1, 0x61, 0x61], &[0x1c]];
  let mut n = 0u64;
  for s in bad_schemas {
    n += 2;
    match catch(|| cddl::validate_json_from_str(s, "1", None)) {
      Ok(Err(JE::CDDLParsing(_))) => {}
      Ok(x) => run.viol(viol("json-error-kind", s, "1", format!("{:?}", x.map_err(|e| format!("{e:?}"))), "Err(CDDLParsing) for a malformed schema")),
      Err(p) => run.viol(viol("json-panic", s, "1", p, "Err(CDDLParsing)")),
    }
    match catch(|| cddl::validate_cbor_from_slice(s, &[1], None)) {
      Ok(Err(CE::CDDLParsing(_))) => {}
      Ok(x) => run.viol(viol("cbor-error-kind", s, "01", trunc(&format!("{:?}", x.map_err(|e| format!("{e:?}")))), "Err(CDDLParsing) for a malformed schema")),
      Err(p) => run.viol(viol("cbor-panic", s, "01", p, "Err(CDDLParsing)")),
    }
  }
  for j in bad_json {
    n += 1;
    match catch(|| cddl::validate_json_from_str(good_schema, j, None)) {
      Ok(Err(JE::JSONParsing(_))) => {}
      Ok(x) => run.viol(viol("json-error-kind", good_schema, j, trunc(&format!("{:?}", x.map_err(|e| format!("{e:?}")))), "Err(JSONParsing) for a malformed document")),
      Err(p) => run.viol(viol("json-panic", good_schema, j, p, "Err(JSONParsing)")),
    }
  }
  for b in bad_cbor {
    n += 1;
    match catch(|| cddl::validate_cbor_from_slice(good_schema, b, None)) {
      Ok(Err(CE::CBORParsing(_))) => {}
      Ok(x) => run.viol(viol("cbor-error-kind", good_schema, &hex(b), trunc(&format!("{:?}", x.map_err(|e| format!("{e:?}")))), "Err(CBORParsing) for a malformed document")),
      Err(p) => run.viol(viol("cbor-panic", good_schema, &hex(b), p, "Err(CBORParsing)")),
    }
  }
  n += 2;
  match catch(|| cddl::validate_json_from_str(good_schema, good_nonconf, None)) {
    Ok(Err(JE::Validation(l))) if !l.is_empty() => {}
    Ok(x) => run.viol(viol("json-error-kind", good_schema, good_nonconf, trunc(&format!("{:?}", x.map_err(|e| format!("{e:?}")))), "Err(Validation(non-empty))")),
    Err(p) => run.viol(viol("json-panic", good_schema, good_nonconf, p, "Err(Validation)")),
  }
  match catch(|| cddl::validate_cbor_from_slice(good_schema, &[0xa1, 0x61, 0x61, 0x61, 0x78], None)) {
    Ok(Err(CE::Validation(l))) if !l.is_empty() => {}
    Ok(x) => run.viol(viol("cbor-error-kind", good_schema, "a161616178", trunc(&format!("{:?}", x.map_err(|e| format!("{e:?}")))), "Err(Validation(non-empty))")),
    Err(p) => run.viol(viol("cbor-panic", good_schema, "a161616178", p, "Err(Validation)")),
  }
  run.states += n;
  run.transitions += n;
  run.traces += n;
  run.set("error_kind_cases", json!(n));
}

pub fn run(tier: Tier) -> i32 {
  quiet_panics();
  let mut run = Run::new("C14", tier, "model_checking");
  let cfg = core_cfg();
  let w = std::env::var("VERIF_W").ok().and_then(|s| s.parse().ok()).unwrap_or(tier.pick(3usize, 4usize));
  let en = Enum::new(&cfg, w);
  let docs = json_universe(Tier::Quick);
  let sdocs: Vec<serde_json::Value> = docs.iter().map(crate::verdicts::rv_to_serde).collect();
  let lib = helper_rules();
  for k in 1..=w {
    let tys = en.types(k);
    sweep(&mut run, tys, &lib, &docs, &sdocs);
    run.add("schemas", tys.len() as u64);
  }
  quiet_stderr(|| kinds(&mut run)); // the string entry points print parser diagnostics to stderr
  run.evaluations = run.transitions;
  run.rule = format!(
    "state = (schema, JSON document): every type term of weight <= {w} over the C01 core alphabet x the {}-value JSON universe. In each state \
     the real JSONValidator and CBORValidator reports (verdict + ordered (location, reason) list) are taken; transitions = the calls of the \
     histories explored from it: immediate repetition, the same call after every other document of the universe was validated (reverse sweep), \
     the string entry point for one document per schema. Oracle: Validation lists are non-empty, every JSON location is \"\" or resolves \
     (serde_json pointer) in the document, all reports of a state are identical. Plus a fixed table of malformed schemas / malformed JSON / \
     truncated CBOR / non-conforming documents whose error kinds must be CDDLParsing / JSONParsing / CBORParsing / Validation. \
     non-trivial = states of schemas that accept some and reject some document.",
    docs.len()
  );
  run.assumptions = vec![
    "concurrent calls are not explored: the crate has no static/thread-local mutable state (grep in DESIGN.md C14), each validator owns its state, so interleavings cannot interact; only sequential histories are enumerated".into(),
  ];
  run.finish()
}

pub fn replay(case: &serde_json::Value, kind: &str) -> Option<Viol> {
  let s = case["schema"].as_str()?;
  let d = case["json"].as_str()?;
  let mk = |o: String| Viol { kind: kind.into(), case: case.clone(), observed: o, expected: String::new(), finding: None };
  match kind {
    "json-location" | "json-empty-error-list" => match jrep_str(s, d) {
      Rep::Val(l) => {
        let doc: serde_json::Value = serde_json::from_str(d).ok()?;
        if l.is_empty() {
          return Some(mk("empty list".into()));
        }
        l.iter().find(|(loc, _)| !resolves(&doc, loc)).map(|(loc, r)| mk(format!("location {loc:?} ({r}) does not resolve")))
      }
      _ => None,
    },
    "json-repeat" | "json-history" | "json-route" => {
      let a = jrep_str(s, d);
      let b = jrep_str(s, d);
      (a != b).then(|| mk(format!("{} then {}", a.short(), b.short())))
    }
    _ => {
      let a = jrep_str(s, d);
      Some(mk(a.short()))
    }
  }
}
