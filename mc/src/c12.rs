//! C12 — duplicate rule definitions and undefined references are always caught.
//! Part A: every document of <= 4 rules over 4 names x {=, /=, //=} x {type, group body} x
//!         {no generics, <t>} (all orders): reference = "first plain '=' whose name was
//!         already defined or incremented"; parser must reject exactly then, name that rule
//!         and point at its line / byte offset.
//! Part B: reference placement: every syntactic position that can hold a type/group name
//!         x every filler class (defined type, defined group, every prelude name, own generic
//!         parameter, another rule's generic parameter, sockets, undefined names), single and
//!         pairs of positions, through the checked entry point CDDL::from_slice.
use crate::core::*;
use serde_json::json;
use std::collections::BTreeMap;

#[derive(Clone)]
struct RuleV {
  name: &'static str,
  /// 0 "=", 1 "/=", 2 "//="
  assign: u8,
  text: String,
}

fn rule_variants() -> Vec<RuleV> {
  let mut out = vec![];
  for name in ["a", "b", "$a", "$$a"] {
    for gen in ["", "<t>"] {
      for (assign, body) in [(0u8, "= int"), (0, "= (x: int)"), (1, "/= tstr"), (2, "//= (y: int)")] {
        out.push(RuleV { name, assign, text: format!("{name}{gen} {body}") });
      }
    }
  }
  out
}

/// index of the first rule that is a plain '=' definition of a name that already has a
/// definition ('=' or an increment) earlier in the document
fn first_duplicate(doc: &[&RuleV]) -> Option<usize> {
  for (i, r) in doc.iter().enumerate() {
    if r.assign == 0 && doc[..i].iter().any(|p| p.name == r.name) {
      return Some(i);
    }
  }
  None
}

fn parse_position(err: &str) -> Option<(usize, usize)> {
  // "... position Position { line: L, column: C, range: (a, b), index: I }, msg: ..."
  let l = err.split("line: ").nth(1)?.split(',').next()?.trim().parse().ok()?;
  let i = err.split("index: ").nth(1)?.split(|c: char| !c.is_ascii_digit()).next()?.parse().ok()?;
  Some((l, i))
}

#[derive(Default)]
struct Acc {
  v: VAcc,
  states: u64,
  rejected: u64,
  accepted: u64,
  samples: Vec<serde_json::Value>,
  obs: BTreeMap<String, u64>,
}

fn viol(kind: &str, text: &str, observed: String, expected: String) -> Viol {
  Viol { kind: kind.into(), case: json!({"cddl": text}), observed, expected, finding: None }
}

pub fn check_dup(text: &str, expect: Option<(&str, usize, usize)>) -> Option<Viol> {
  let r = catch(|| cddl::cddl_from_str(text, false).map(|_| ()));
  match (r, expect) {
    (Err(p), _) => Some(viol("dup-panic", text, format!("PANIC {p}"), "Ok or Err".into())),
    (Ok(Ok(())), None) => None,
    (Ok(Ok(())), Some((n, line, _))) => {
      Some(viol("dup-accepted", text, "Ok".into(), format!("rejected: rule {n:?} on line {line} is defined again with '='")))
    }
    (Ok(Err(e)), None) => Some(viol("dup-rejected", text, format!("Err({})", trunc(&e)), "accepted: no name has a second '=' definition".into())),
    (Ok(Err(e)), Some((n, line, idx))) => {
      let names = e.contains(&format!("\"{n}\""));
      let pos = parse_position(&e);
      if !e.contains("already defined") || !names {
        return Some(viol("dup-message", text, format!("Err({})", trunc(&e)), format!("an error naming the duplicated rule {n:?}")));
      }
      if pos != Some((line, idx)) {
        return Some(viol(
          "dup-position",
          text,
          format!("Err({})", trunc(&e)),
          format!("position of the later definition: line {line}, index {idx}"),
        ));
      }
      None
    }
  }
}

fn part_a(run: &mut Run, tier: Tier) {
  // a rule variant the parser does not accept on its own (e.g. a '$' type socket with a group
  // body: the crate ties the socket prefix to the rule kind - C03's question) cannot take part
  // in a statement about duplicates; such variants are dropped and counted
  let all = rule_variants();
  let vs: Vec<RuleV> = all.iter().filter(|r| matches!(catch(|| cddl::cddl_from_str(&format!("{}\n", r.text), false).is_ok()), Ok(true))).cloned().collect();
  run.set("part_a_rule_variants_not_accepted_alone", json!(all.iter().filter(|r| !vs.iter().any(|v| v.text == r.text)).map(|r| r.text.clone()).collect::<Vec<_>>()));
  let n = vs.len();
  let maxlen = tier.pick(4usize, 5usize);
  // documents = all sequences of length 1..=maxlen; index space n + n^2 + ...
  let mut total = 0usize;
  let mut offs = vec![];
  for l in 1..=maxlen {
    offs.push(total);
    total += n.pow(l as u32);
  }
  let accs = par_sweep(total, 256, Acc::default, |x, a: &mut Acc| {
    let l = (1..=maxlen).rev().find(|&l| x >= offs[l - 1]).unwrap();
    let mut k = x - offs[l - 1];
    let mut doc: Vec<&RuleV> = vec![];
    for _ in 0..l {
      doc.push(&vs[k % n]);
      k /= n;
    }
    let mut text = String::new();
    let mut starts = vec![];
    for r in &doc {
      starts.push(text.len());
      text.push_str(&r.text);
      text.push('\n');
    }
    let exp = first_duplicate(&doc).map(|i| (doc[i].name, i + 1, starts[i]));
    a.states += 1;
    if exp.is_some() {
      a.rejected += 1;
    } else {
      a.accepted += 1;
    }
    if let Some(v) = check_dup(&text, exp) {
      a.v.push(v);
    }
    if a.samples.is_empty() && x % 7919 == 11 {
      a.samples.push(json!({"cddl": text, "expected_duplicate": exp.map(|e| e.0)}));
    }
  });
  let (mut st, mut rj, mut ac) = (0, 0, 0);
  for a in accs {
    run.absorb(a.v);
    st += a.states;
    rj += a.rejected;
    ac += a.accepted;
    for s in a.samples {
      run.sample(s);
    }
  }
  run.states += st;
  run.transitions += st;
  run.traces += st;
  run.nontrivial += rj.min(ac) * 2;
  run.set("part_a_duplicates", json!({"documents": st, "reference_rejects": rj, "reference_accepts": ac, "rule_variants": n, "max_rules": maxlen}));
}

/// part A2: long documents (the duplicate scan is a whole-document pass: sorting, hashing or windowing it goes wrong only
/// beyond some rule count): n distinct filler rules with one name defined twice at every pair of positions (i < j) and in
/// every pair of assignment forms
fn part_a2(run: &mut Run, tier: Tier) {
  let sizes: Vec<usize> = match tier {
    Tier::Quick => vec![8, 21, 22, 33],
    Tier::Thorough => vec![8, 16, 17, 20, 21, 22, 32, 33, 64, 65, 129],
  };
  let forms: [(u8, &str); 2] = [(0, "= int"), (1, "/= tstr")];
  let mut n_states = 0u64;
  for &n in &sizes {
    for i in 0..n {
      for j in i + 1..n {
        for (a1, b1) in forms {
          for (a2, b2) in forms {
            let mut text = String::new();
            let mut starts = vec![];
            for k in 0..n {
              starts.push(text.len());
              if k == i {
                text.push_str(&format!("dup {b1}\n"));
              } else if k == j {
                text.push_str(&format!("dup {b2}\n"));
              } else {
                text.push_str(&format!("f{k} = {k}\n"));
              }
            }
            let _ = a1;
            let exp = if a2 == 0 { Some(("dup", j + 1, starts[j])) } else { None };
            n_states += 1;
            if let Some(v) = check_dup(&text, exp) {
              run.viol(v);
            }
          }
        }
      }
    }
  }
  run.states += n_states;
  run.transitions += n_states;
  run.traces += n_states;
  run.nontrivial += n_states;
  run.set("part_a2_long_documents", json!({"documents": n_states, "rule_counts": sizes}));
}

// ------------------------------------------------------------------------------ part B

pub const PRELUDE: [&str; 40] = [
  "any", "uint", "nint", "int", "bstr", "bytes", "tstr", "text", "tdate", "time", "number", "biguint", "bignint", "bigint", "integer", "unsigned",
  "decfrac", "bigfloat", "eb64url", "eb64legacy", "eb16", "encoded-cbor", "uri", "b64url", "b64legacy", "regexp", "mime-message", "cbor-any",
  "float16", "float32", "float64", "float16-32", "float32-64", "float", "false", "true", "bool", "nil", "null", "undefined",
];

/// (template with one hole `@`, is the hole a reference?, does the enclosing rule bind <t>?)
fn templates() -> Vec<(&'static str, bool, bool)> {
  vec![
    ("X = @", true, false),
    ("X = int / @", true, false),
    ("X = [@]", true, false),
    ("X = [* @]", true, false),
    ("X = [? @, int]", true, false),
    ("X = {a: @}", true, false),
    ("X = {? \"k\" => @}", true, false),
    ("X = {@ => int}", true, false),
    ("X = {@ ^ => int}", true, false),
    ("X = {* @ => any}", true, false),
    // a bareword member key is a text key, not a reference
    ("X = {@: int}", false, false),
    ("X = m<@>", true, false),
    ("X = m<(int / @)>", true, false),
    ("X = [gm<@>]", true, false),
    ("X = tstr .size @", true, false),
    ("X = int .default @", true, false),
    ("X = 0..@", true, false),
    ("X = @...10", true, false),
    ("X = ~@", true, false),
    ("X = &@", true, false),
    ("X = #6.1(@)", true, false),
    ("X = #6.<@>(int)", true, false),
    ("X = [(@, int)]", true, false),
    ("X = [(int // @)]", true, false),
    ("X = {a: [{b: @}]}", true, false),
    ("X = (@)", true, false),
    ("X = &(a: @)", true, false),
    ("X /= @", true, false),
    ("X //= (a: @)", true, false),
    ("X = (a: @, b: int)", true, false),
    ("X<t> = [@]", true, true),
    ("X<t> = {a: m<@>}", true, true),
    ("X<t> = (a: @)", true, true),
    ("X<t, v> = @ / v", true, true),
  ]
}

#[derive(Clone, Copy, PartialEq, Debug)]
enum Fill {
  Defined,
  Undefined,
  /// `t`: bound only inside templates whose rule declares <t>
  ParamT,
}

fn fillers() -> Vec<(String, Fill)> {
  let mut out: Vec<(String, Fill)> = vec![
    ("d".into(), Fill::Defined),
    ("dg".into(), Fill::Defined),
    ("m".into(), Fill::Defined),
    ("$sock".into(), Fill::Defined),
    ("$$gsock".into(), Fill::Defined),
    ("$d".into(), Fill::Defined),
    ("zz".into(), Fill::Undefined),
    ("uint8".into(), Fill::Undefined),
    ("any2".into(), Fill::Undefined),
    ("d-x".into(), Fill::Undefined),
    // `u` is a generic parameter of ANOTHER rule (m<u>), never of the enclosing one
    ("u".into(), Fill::Undefined),
    ("t".into(), Fill::ParamT),
  ];
  for p in PRELUDE {
    out.push((p.to_string(), Fill::Defined));
  }
  out
}

const LIB: &str = "d = int\ndg = (x: int)\nm<u> = [u]\ngm<u> = (u, u)\n";

fn expect_undefined(reference: bool, binds_t: bool, f: Fill) -> bool {
  reference
    && match f {
      Fill::Defined => false,
      Fill::Undefined => true,
      Fill::ParamT => !binds_t,
    }
}

pub fn check_ref(text: &str, undefined: &[String]) -> Option<Viol> {
  let viol = |kind: &str, text: &str, observed: String, expected: String| Viol {
    kind: kind.into(),
    case: json!({"cddl": text, "undefined": undefined}),
    observed,
    expected,
    finding: None,
  };
  // the statement is about documents the plain parser accepts (syntax errors are C03's)
  if !matches!(catch(|| cddl::cddl_from_str(text, false).is_ok()), Ok(true)) {
    return None; // counted by the caller (syntax_rejected); e.g. a '$$' name in a type position
  }
  let r = catch(|| cddl::ast::CDDL::from_slice(text.as_bytes()).map(|_| ()));
  match r {
    Err(p) => Some(viol("ref-panic", text, format!("PANIC {p}"), "Ok or Err".into())),
    Ok(Ok(())) if undefined.is_empty() => None,
    Ok(Ok(())) => Some(viol("ref-accepted", text, "Ok".into(), format!("rejected: {:?} is referenced but not defined", undefined))),
    Ok(Err(e)) if undefined.is_empty() => {
      Some(viol("ref-rejected", text, format!("Err({})", trunc(&e)), "accepted: every reference is defined, prelude, an own generic parameter or a socket".into()))
    }
    Ok(Err(e)) => {
      if undefined.iter().any(|n| e.contains(&format!("missing definition for rule {n}"))) {
        None
      } else {
        Some(viol("ref-message", text, format!("Err({})", trunc(&e)), format!("an error naming one of {:?}", undefined)))
      }
    }
  }
}

fn part_b(run: &mut Run, tier: Tier) {
  let ts = templates();
  let fs = fillers();
  // single positions
  let mut docs: Vec<(String, Vec<String>)> = vec![];
  for (t, is_ref, binds) in &ts {
    for (f, cls) in &fs {
      let body = t.replace('X', "r").replace('@', f);
      let text = format!("{body}\n{LIB}");
      let und = if expect_undefined(*is_ref, *binds, *cls) { vec![f.clone()] } else { vec![] };
      docs.push((text, und));
    }
  }
  // pairs of positions (two rules), fillers restricted to one of each class plus two preludes
  let small: Vec<(String, Fill)> = fs.iter().filter(|(n, _)| ["d", "dg", "$sock", "zz", "u", "t", "int", "encoded-cbor"].contains(&n.as_str())).cloned().collect();
  let pair_templates: Vec<&(&str, bool, bool)> = ts.iter().collect();
  for (t1, r1, b1) in &pair_templates {
    for (t2, r2, b2) in &pair_templates {
      for (f1, c1) in &small {
        for (f2, c2) in &small {
          let a = t1.replace('X', "r").replace('@', f1);
          let b = t2.replace('X', "s").replace('@', f2);
          let text = format!("{a}\n{b}\n{LIB}");
          let mut und = vec![];
          if expect_undefined(*r1, *b1, *c1) {
            und.push(f1.clone());
          }
          if expect_undefined(*r2, *b2, *c2) {
            und.push(f2.clone());
          }
          docs.push((text, und));
        }
      }
    }
  }
  // arms of ONE name: a generic parameter is bound in the arm that declares it, not in its sibling arms
  let type_binders = ["r<t> = [d]", "r<t> = [t]", "r<t> = {a: m<t>}", "r<t, v> = t / v"];
  let type_arms = ["r /= @", "r /= [@]", "r /= m<@>", "r /= {a: [@]}", "r<w> /= [@, w]", "r<t> /= [@]"];
  let group_binders = ["r<t> = (a: t)", "r<t> = (t, d)"];
  let group_arms = ["r //= (a: @)", "r //= (@, int)", "r<w> //= (a: @, b: w)", "r<t> //= (a: @)"];
  for (binders, arms) in [(&type_binders[..], &type_arms[..]), (&group_binders[..], &group_arms[..])] {
    for b in binders {
      for arm in arms {
        for (f, cls) in &small {
          for binder_first in [true, false] {
            for user in ["", "x = [r<int>]\n", "x = r<int>\n"] {
              let a = arm.replace('@', f);
              let text = if binder_first { format!("{user}{b}\n{a}\n{LIB}") } else { format!("{user}{a}\n{b}\n{LIB}") };
              let arm_binds_t = arm.starts_with("r<t>");
              let und = if expect_undefined(true, arm_binds_t, *cls) { vec![f.clone()] } else { vec![] };
              docs.push((text, und));
            }
          }
        }
      }
    }
  }
  let accs = par_sweep(docs.len(), 64, Acc::default, |x, a: &mut Acc| {
    let (text, und) = &docs[x];
    if !matches!(catch(|| cddl::cddl_from_str(text, false).is_ok()), Ok(true)) {
      *a.obs.entry("syntax_rejected".into()).or_insert(0) += 1;
      return;
    }
    a.states += 1;
    if und.is_empty() {
      a.accepted += 1;
    } else {
      a.rejected += 1;
    }
    if let Some(v) = check_ref(text, und) {
      a.v.push(v);
    }
    if a.samples.is_empty() && x % 4099 == 5 {
      a.samples.push(json!({"cddl": text, "undefined_references": und}));
    }
  });
  let (mut st, mut rj, mut ac, mut syn) = (0, 0, 0, 0u64);
  for a in accs {
    run.absorb(a.v);
    st += a.states;
    rj += a.rejected;
    ac += a.accepted;
    for s in a.samples {
      run.sample(s);
    }
    syn += a.obs.get("syntax_rejected").copied().unwrap_or(0);
  }
  // harness sanity: every position template must be syntactically valid with the defined filler
  for (t, _, _) in &ts {
    let text = format!("{}\n{LIB}", t.replace('X', "r").replace('@', "d"));
    if cddl::cddl_from_str(&text, false).is_err() {
      run.notes.push(format!("position template {t:?} is not accepted by the parser: position not covered"));
      run.exhaustive = false;
    }
  }
  run.states += st;
  run.transitions += st;
  run.traces += st;
  run.nontrivial += rj.min(ac) * 2;
  run.set("part_b_references", json!({"documents": st, "reference_rejects": rj, "reference_accepts": ac, "positions": ts.len(), "fillers": fs.len(), "documents_outside_the_grammar_skipped": syn}));
}

pub fn run(tier: Tier) -> i32 {
  quiet_panics();
  let _g = silence_stderr();
  let mut run = Run::new("C12", tier, "model_checking");
  part_a(&mut run, tier);
  part_a2(&mut run, tier);
  part_b(&mut run, tier);
  run.evaluations = run.states;
  run.rule = "Part A: state = a document of 1..4 (thorough 5) rules, each drawn from 32 variants (names a, b, $a, $$a x with/without <t> x '= type', '= (group)', \
    '/= type', '//= (group)'), all sequences enumerated; reference model: the first plain '=' whose name already has a definition or an increment is a duplicate, \
    otherwise the document is accepted; cddl_from_str must reject exactly then, the message must name that rule and the position must be its line and byte offset. \
    Part A2: long documents of 8 / 21 / 22 / 33 (thorough up to 129) rules with one name defined twice at every pair of positions and in every pair of assignment forms. \
    Part B: state = a document with one reference hole filled: 34 syntactic positions (type, choice arm, array entry with/without occurrence, map value, \
    member-key type with and without cut, table key, bareword key [not a reference], generic argument of type and group rules, control argument, both range bounds, unwrap, \
    group-to-choice, tag content, non-literal tag number, inline group, group choice, nested map/array, parenthesised type, /= and //= rules, group rules, generic rule \
    bodies) x 52 fillers (defined type / group / generic rule, every standard prelude name, own generic parameter t, another rule's generic parameter u, $socket / $$socket, \
    undefined look-alikes zz uint8 any2 d-x), plus all pairs of positions over a reduced filler set; reference model: reject iff a hole that is a reference holds an \
    undefined name or a parameter not bound by the enclosing rule; CDDL::from_slice must agree and the message must name an undefined name. \
    transition = placing one more rule / filling one more hole. non-trivial = twice the smaller of the two reference classes (both verdicts are exercised)."
    .into();
  run.assumptions = vec!["a type rule and a group rule, a generic and a non-generic rule of the same name share one namespace (the property says: regardless of rule kinds, generics, sockets); $a, $$a and a are three names".into()];
  run.finish()
}

pub fn replay(case: &serde_json::Value, kind: &str) -> Option<Viol> {
  let text = case["cddl"].as_str()?;
  let _g = silence_stderr();
  if kind.starts_with("dup") {
    // recompute the reference from the text: rule lines are "name[<t>] op body"
    let mut seen: Vec<String> = vec![];
    let mut exp = None;
    let mut off = 0;
    for (i, line) in text.lines().enumerate() {
      let head = line.split(' ').next().unwrap_or("");
      let name = head.split('<').next().unwrap_or("").to_string();
      let op = line.split(' ').nth(1).unwrap_or("");
      if op == "=" && seen.contains(&name) && exp.is_none() {
        exp = Some((name.clone(), i + 1, off));
      }
      seen.push(name);
      off += line.len() + 1;
    }
    let e2 = exp.as_ref().map(|(n, l, o)| (n.as_str(), *l, *o));
    check_dup(text, e2)
  } else {
    let und: Vec<String> = case["undefined"].as_array().map(|a| a.iter().filter_map(|x| x.as_str().map(|s| s.to_string())).collect()).unwrap_or_default();
    check_ref(text, &und)
  }
}
