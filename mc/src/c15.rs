//! C15 — source positions in the AST and in parse errors are accurate.
//! Accepted documents: invariants over every span reachable in the public AST.
//! Rejected documents (every single-character deletion / insertion / truncation of the
//! accepted ones): the reported position is inside the input, on character boundaries,
//! non-inverted, and its line/column are those of its index.
use crate::core::*;
use crate::shape::{self, N};
use crate::syn::*;
use crate::terms::*;
use serde_json::json;
use std::collections::BTreeMap;

fn viol(kind: &str, text: &str, observed: String, expected: &str) -> Viol {
  Viol { kind: kind.into(), case: json!({"cddl": text}), observed, expected: expected.into(), finding: None }
}

fn line_of(text: &str, idx: usize) -> usize {
  1 + text.as_bytes()[..idx.min(text.len())].iter().filter(|&&b| b == b'\n').count()
}
fn col_of(text: &str, idx: usize) -> usize {
  let i = idx.min(text.len());
  let ls = text[..i].rfind('\n').map(|p| p + 1).unwrap_or(0);
  text[ls..i].chars().count() + 1
}

/// nodes whose span does not correspond to source text: the empty type the parser
/// synthesises for a `#6` / `#6.n` without content
fn synthetic(n: &N) -> bool {
  n.kind == "type" && n.children.is_empty() && n.span == Some((0, 0, 0))
}

pub fn check_spans(text: &str, root: &N) -> Option<Viol> {
  let len = text.len();
  let mut bad: Option<Viol> = None;
  // (1) per-node checks
  root.walk(&mut |n, _| {
    if bad.is_some() || synthetic(n) {
      return;
    }
    if let Some((s, e, l)) = n.span {
      let d = || format!("{}<{}> span ({s}, {e}, line {l})", n.kind, trunc(&n.label));
      if !(s <= e && e <= len) {
        bad = Some(viol("span-out-of-range", text, d(), "0 <= start <= end <= len"));
      } else if !text.is_char_boundary(s) || !text.is_char_boundary(e) {
        bad = Some(viol("span-not-on-char-boundary", text, d(), "start and end on UTF-8 character boundaries"));
      } else if l != line_of(text, s) {
        bad = Some(viol("span-line", text, format!("{} but its start is on line {}", d(), line_of(text, s)), "the 1-based line of its start"));
      } else if n.kind == "ident" && &text[s..e] != n.label {
        bad = Some(viol("ident-span-text", text, format!("{} covers {:?}", d(), &text[s..e]), "exactly the identifier's text with its socket prefix"));
      } else if (n.kind == "typerule" || n.kind == "grouprule") && n.children.first().and_then(|c| c.span).map(|c| c.0) != Some(s) {
        bad = Some(viol("rule-span-start", text, format!("{} but its name starts at {:?}", d(), n.children.first().and_then(|c| c.span)), "the span of a rule starts at its name"));
      }
    }
  });
  if bad.is_some() {
    return bad;
  }
  // (2) nesting and sibling order: each spanned node against its nearest spanned ancestor,
  // and the spanned descendants-frontier of every node in source order without overlap
  fn frontier<'a>(n: &'a N, out: &mut Vec<&'a N>) {
    for c in &n.children {
      if synthetic(c) {
        continue;
      }
      if c.span.is_some() {
        out.push(c);
      } else {
        frontier(c, out);
      }
    }
  }
  fn go(text: &str, n: &N, bad: &mut Option<Viol>) {
    if bad.is_some() {
      return;
    }
    let mut kids = vec![];
    frontier(n, &mut kids);
    if let Some((ps, pe, _)) = n.span {
      if !synthetic(n) {
        for k in &kids {
          let (s, e, _) = k.span.unwrap();
          if s < ps || e > pe {
            *bad = Some(viol(
              "child-span-outside-parent",
              text,
              format!("{}<{}> ({s}, {e}) is not inside its parent {}<{}> ({ps}, {pe})", k.kind, trunc(&k.label), n.kind, trunc(&n.label)),
              "a node's span lies inside the span of its parent",
            ));
            return;
          }
        }
      }
    }
    for w in kids.windows(2) {
      let (a, b) = (w[0].span.unwrap(), w[1].span.unwrap());
      if a.1 > b.0 {
        *bad = Some(viol(
          "sibling-spans-overlap-or-out-of-order",
          text,
          format!("{}<{}> ({}, {}) then {}<{}> ({}, {}) under {}", w[0].kind, trunc(&w[0].label), a.0, a.1, w[1].kind, trunc(&w[1].label), b.0, b.1, n.kind),
          "siblings appear in source order without overlap",
        ));
        return;
      }
    }
    for c in &n.children {
      go(text, c, bad);
    }
  }
  go(text, root, &mut bad);
  bad
}

pub fn check_error(text: &str, e: &cddl::parser::Error) -> Option<Viol> {
  let cddl::parser::Error::PARSER { position: p, msg } = e else {
    return None;
  };
  let len = text.len();
  let d = || format!("{:?} ({})", p, trunc(&msg.short));
  let (a, b) = p.range;
  if p.index > len || a > len || b > len {
    return Some(viol("error-position-outside-input", text, d(), "index and range inside the input"));
  }
  if a > b {
    return Some(viol("error-range-inverted", text, d(), "a non-inverted range"));
  }
  if !text.is_char_boundary(p.index) || !text.is_char_boundary(a) || !text.is_char_boundary(b) {
    return Some(viol("error-position-not-on-char-boundary", text, d(), "index and range on UTF-8 character boundaries"));
  }
  if p.line != line_of(text, p.index) || p.column != col_of(text, p.index) {
    return Some(viol(
      "error-line-column",
      text,
      format!("{} but index {} is line {} column {}", d(), p.index, line_of(text, p.index), col_of(text, p.index)),
      "line and column of the reported index",
    ));
  }
  None
}

pub enum Out {
  Accepted(Option<Viol>),
  Rejected(Option<Viol>),
}

pub fn check_text(text: &str) -> Out {
  match catch(|| cddl::pest_bridge::cddl_from_pest_str(text)) {
    Ok(Ok(a)) => Out::Accepted(check_spans(text, &shape::cddl(&a))),
    Ok(Err(e)) => Out::Rejected(check_error(text, &e)),
    Err(p) => Out::Rejected(Some(viol("panic", text, format!("PANIC {p}"), "Ok or Err"))),
  }
}

/// every single-edit mutant of `text`: delete one char, insert one of the probes at every
/// char boundary, truncate at every char boundary
fn mutants(text: &str, out: &mut Vec<String>) {
  let bounds: Vec<usize> = text.char_indices().map(|(i, _)| i).chain([text.len()]).collect();
  for w in bounds.windows(2) {
    let mut s = String::with_capacity(text.len());
    s.push_str(&text[..w[0]]);
    s.push_str(&text[w[1]..]);
    out.push(s);
  }
  for &i in &bounds {
    for probe in ["@", ")", "é", "\"", ";"] {
      let mut s = String::with_capacity(text.len() + 2);
      s.push_str(&text[..i]);
      s.push_str(probe);
      s.push_str(&text[i..]);
      out.push(s);
    }
    out.push(text[..i].to_string());
  }
}

fn commented(text: &str, variant: usize) -> String {
  match variant {
    0 => format!("; ünï cömment\n{text}"),
    1 => text.replace(" / ", " ; é\n  / ").replace(", ", ", ; ü\r\n  "),
    _ => format!("{}; tail ü", text.replace('\n', "\r\n")),
  }
}

#[derive(Default)]
struct Acc {
  v: VAcc,
  acc: u64,
  rej: u64,
  spans: u64,
  kinds: BTreeMap<String, u64>,
  samples: Vec<serde_json::Value>,
}

fn sweep(run: &mut Run, docs: &[String], label: &str) {
  let accs = par_sweep(docs.len(), 128, Acc::default, |i, a: &mut Acc| match check_text(&docs[i]) {
    Out::Accepted(v) => {
      a.acc += 1;
      if let Some(v) = v {
        a.v.push(v);
      } else if a.samples.is_empty() && i % 733 == 1 {
        a.samples.push(json!({"cddl": docs[i], "verdict": "accepted; all spans consistent"}));
      }
    }
    Out::Rejected(v) => {
      a.rej += 1;
      if let Some(v) = v {
        a.v.push(v);
      } else if a.samples.len() < 2 && i % 977 == 1 {
        let e = cddl::pest_bridge::cddl_from_pest_str(&docs[i]).err().map(|e| e.to_string()).unwrap_or_default();
        a.samples.push(json!({"cddl": docs[i], "verdict": "rejected", "error": trunc(&e)}));
      }
    }
  });
  let (mut ac, mut rj) = (0, 0);
  for a in accs {
    run.absorb(a.v);
    ac += a.acc;
    rj += a.rej;
    for s in a.samples {
      run.sample(s);
    }
    let _ = (&a.kinds, a.spans);
  }
  run.states += ac + rj;
  run.transitions += ac + rj;
  run.traces += ac + rj;
  run.evaluations += docs.len() as u64;
  run.nontrivial += ac.min(rj);
  run.set(&format!("family_{label}"), json!({"texts": docs.len(), "accepted": ac, "rejected": rj}));
}

pub fn run(tier: Tier) -> i32 {
  quiet_panics();
  let mut run = Run::new("C15", tier, "model_checking");
  let cfg = syntax_cfg(tier);
  let w = std::env::var("VERIF_W").ok().and_then(|s| s.parse().ok()).unwrap_or(tier.pick(3usize, 4usize));
  let en = Enum::new(&cfg, w);
  let f1 = docs_types(&en, w);
  let f2 = docs_headers(&en, w.min(3));
  let f3 = docs_multi(tier);
  let mut f4 = vec![];
  for (i, d) in f1.iter().enumerate() {
    f4.push(respell(d, 1 + i % 3));
    f4.push(commented(d, i % 3));
  }
  for d in f3.iter().chain(docs_operators().iter()) {
    f4.push(commented(d, 0));
    f4.push(commented(d, 1));
    f4.push(commented(d, 2));
  }
  // single-edit mutants (error positions at every offset incl. end of input and next to multi-byte characters)
  let mw = tier.pick(2usize, 3usize);
  let mut f5 = vec![];
  for d in docs_types(&en, mw).iter().chain(f3.iter().take(tier.pick(40, 288))) {
    mutants(d, &mut f5);
    mutants(&commented(d, 1), &mut f5);
  }
  // errors reported through AST spans rather than by pest: a duplicate rule that is not the first
  // thing on its line, with multi-byte text before it
  let mut f6 = vec![];
  for b in docs_types(&en, 2) {
    let b = b.trim_start_matches("r = ").trim_end();
    f6.push(format!("x = {b} a = int a = tstr\n"));
    f6.push(format!("a = {b}\n; é\n  a = 1\n"));
    f6.push(format!("a = int ; ü\nx = {b} a = 2"));
    f6.push(format!("x = \"é\" $s /= {b} $s = 1 ; ü"));
  }
  sweep(&mut run, &f6, "duplicate_rule_errors");
  sweep(&mut run, &f1, "types");
  sweep(&mut run, &f2, "rule_headers");
  sweep(&mut run, &f3, "multi_rule");
  sweep(&mut run, &f4, "respelled_and_commented");
  // operands that span several lines before an operator / a choice / a following entry: a node's line must come from its
  // own start, whatever precedes it
  let mut f7 = vec![];
  let lefts = ["{\n  x: int,\n  y: tstr,\n}", "[\n int,\n tstr\n]", "(\n int /\n tstr\n)", "&(\n a: 1,\n b: 2\n)", "h'01\n02'", "m<\n int\n>", "\"a\"", "#6.1(\n int\n)"];
  let tails = [" .within b", " .and b", " .size 2", "\n .eq b", " .. 5", " ... b", " / b", "\n / b / c"];
  for l in lefts {
    for t in tails {
      for ctx in ["r = @\nb = 1\nc = 2\nm<t> = t\n", "a = 1\n\nr = [@, @]\nb = 1\nc = 2\nm<t> = t\n", "r = {k: @, ? j: @}\nb = 1\nc = 2\nm<t> = t\n"] {
        f7.push(ctx.replace('@', &format!("{l}{t}")));
      }
    }
  }
  sweep(&mut run, &f7, "multi_line_operands");
  sweep(&mut run, &f5, "single_edit_mutants");
  run.rule = "state = one text. Accepted texts (syntax families of C06 plus tab/CRLF respellings and spellings with multi-byte comments) are checked on every span reachable in the \
    public AST: 0 <= start <= end <= len on UTF-8 character boundaries; line = 1 + line breaks before start; every spanned node lies inside its nearest spanned ancestor; \
    spanned siblings are in source order without overlap; an identifier's span covers exactly its text incl. socket prefix; a rule's span starts at its name (the empty type \
    synthesised for a content-less '#6' has no source text and is exempt). Rejected texts - every single-character deletion, every insertion of one of 5 probe characters \
    (incl. a 2-byte one) at every character boundary, every truncation, of the small documents - are checked on the reported Position: index and range inside the input, on \
    character boundaries, range non-inverted, line/column equal to those recomputed from the index (column counted in characters). Plus 8 multi-line left operands x 8 operator / choice tails x 3 contexts (a node's line comes from its own start). Plus documents whose error is a duplicate rule (reported through AST spans) placed after multi-byte text on the same line. transition = one edit / one respelling. \
    non-trivial = min(accepted, rejected) per family (both halves of the property are exercised)."
    .into();
  run.finish()
}

pub fn replay(case: &serde_json::Value) -> Option<Viol> {
  match check_text(case["cddl"].as_str()?) {
    Out::Accepted(v) | Out::Rejected(v) => v,
  }
}

#[allow(dead_code)]
fn unused(_: &Ty) {}
